// STANDIN-DIR: util/iputil
// Bounded stand-in (NOT a proof) for the IPv4 text clause of C15: ToString/ToBytes go through strconv and strings.
// Bound: every value of each octet with the other three at 0 and at 255 (2x4x256 addresses) plus 2^16 addresses from a
// fixed linear congruential sequence (seed from VERIF_SEED).
package iputil

import (
	"fmt"
	"os"
	"strconv"
	"testing"
)

func TestStandinIPText(t *testing.T) {
	cases := 0
	chk := func(ip int32) {
		cases++
		s := ToStringInt(ip)
		b := ToBytes(s)
		if len(b) != 4 || ToInt(b) != ip || ToString(ToBytesFrInt(ip)) != s {
			fmt.Printf("STANDIN-FAIL name=iptext witness=%d text=%q bytes=%v\n", ip, s, b)
			t.Fail()
		}
	}
	for pos := uint(0); pos < 4; pos++ {
		for v := 0; v < 256; v++ {
			chk(int32(uint32(v) << (8 * pos)))
			chk(int32(^uint32(0) &^ (uint32(255) << (8 * pos)) | uint32(v)<<(8*pos)))
		}
	}
	seed, _ := strconv.Atoi(os.Getenv("VERIF_SEED"))
	x := uint32(seed)*2654435761 + 12345
	for i := 0; i < 1<<16; i++ {
		x = x*1664525 + 1013904223
		chk(int32(x))
	}
	fmt.Printf("STANDIN name=iptext cases=%d bound=\"per-octet exhaustive (2x4x256) + 65536 pseudo-random addresses\"\n", cases)
}
