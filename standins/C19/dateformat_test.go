// STANDIN-DIR: util/dateutil
// Bounded stand-in (NOT a proof) for the pattern clause of C19: DateFormat works on time.Time, a map of runes and a
// bytes.Reader, outside the verifier. Bound: every permutation-free arrangement of the seven field letters with four
// separator sets (full patterns), 13 days x 9 intra-day instants including every field boundary and whole seconds.
package dateutil

import (
	"fmt"
	"testing"
	"time"
)

func TestStandinDateFormat(t *testing.T) {
	patterns := []string{"y-m-d H:M:S.s", "ymdHMSs", "y/m/d H:M:S s", "d.m.y S:M:H s", "s S M H d m y", "H:M:S.s y-m-d", "ymd HMS.s", "y-m-dTH:M:S.s"}
	days := []time.Time{}
	for _, d := range []string{"2000-01-01", "2000-02-29", "2000-03-01", "2004-02-29", "2010-06-15", "2019-12-31", "2020-01-01", "2024-02-29", "2038-01-19", "2050-07-04", "2096-02-29", "2099-12-30", "2099-12-31"} {
		tt, _ := time.ParseInLocation("2006-01-02", d, time.Local)
		days = append(days, tt)
	}
	offs := []time.Duration{0, time.Millisecond, 999 * time.Millisecond, time.Second, 59*time.Second + 999*time.Millisecond, time.Minute, 12*time.Hour + 34*time.Minute + 56*time.Second + 7*time.Millisecond, 23*time.Hour + 59*time.Minute + 59*time.Second, 23*time.Hour + 59*time.Minute + 59*time.Second + 999*time.Millisecond}
	cases := 0
	for _, p := range patterns {
		df := NewDateFormat(p)
		for _, d := range days {
			for _, o := range offs {
				inst := d.Add(o)
				want := inst.UnixNano() / 1000000
				cases++
				txt := df.FormatTime(inst)
				got, err := df.Parse(txt)
				if err != nil || got != want {
					fmt.Printf("STANDIN-FAIL name=dateformat-full-pattern witness=%q pattern=%q text=%q got=%d want=%d err=%v\n", inst.Format(time.RFC3339Nano), p, txt, got, want, err)
					t.Fail()
				}
			}
		}
	}
	fmt.Printf("STANDIN name=dateformat-full-pattern cases=%d bound=\"8 full patterns x 13 days x 9 intra-day instants\"\n", cases)
}
