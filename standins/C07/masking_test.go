// STANDIN-DIR: lang/pack/udp
// Bounded stand-in (NOT a proof) for the masking clause of C07: strings.Split/Index/TrimSpace over Go maps are outside
// the verifier. Bound: every connection string of up to 3 key=value tokens over the key and value alphabets below,
// both separators, all three pack types that post-process connection strings, one Go and one PHP protocol version.
package udp

import (
	"fmt"
	"strings"
	"testing"
)

func TestStandinMasking(t *testing.T) {
	keys := []string{"password", "user", "host", "pwd"}
	secrets := []string{"s3cret", "Qb=Zd", "c2VjcmV0cGFzcw==", "p"}
	plain := []string{"alice", "db1", ""}
	seps := []string{" ", ";"}
	vers := []int32{50100, 10110}
	cases := 0
	check := func(name string, dbc string, process func(string) string, secret string) {
		cases++
		out := process(dbc)
		if strings.Contains(out, "password="+secret) || (len(secret) > 1 && strings.Contains(out, secret)) {
			fmt.Printf("STANDIN-FAIL name=masking witness=%q pack=%s result=%q\n", dbc, name, out)
			t.Fail()
		}
	}
	var tokens []string
	for _, k := range keys {
		if k == "password" {
			continue
		}
		for _, v := range plain {
			tokens = append(tokens, k+"="+v)
		}
	}
	for _, ver := range vers {
		procs := map[string]func(string) string{
			"UdpTxDbcPack": func(s string) string { p := NewUdpTxDbcPackVer(ver); p.Dbc = s; p.Process(); return p.Dbc },
			"UdpTxSqlPack": func(s string) string { p := NewUdpTxSqlPackVer(ver); p.Dbc = s; p.Process(); return p.Dbc },
			"UdpTxSqlParamPack": func(s string) string {
				p := NewUdpTxSqlParamPackVer(ver)
				p.Dbc = s
				p.Process()
				return p.Dbc
			},
		}
		for name, pr := range procs {
			for _, sep := range seps {
				for _, sec := range secrets {
					pw := "password=" + sec
					// password alone, first, middle, last among up to two other tokens
					check(name, pw, pr, sec)
					for _, a := range tokens {
						check(name, pw+sep+a, pr, sec)
						check(name, a+sep+pw, pr, sec)
						for _, b := range tokens {
							check(name, a+sep+pw+sep+b, pr, sec)
						}
					}
					// the same key twice
					check(name, pw+sep+"user=alice"+sep+pw, pr, sec)
				}
			}
		}
	}
	fmt.Printf("STANDIN name=masking cases=%d bound=\"<=3 tokens, keys {password,user,host,pwd}, 4 secret values incl. '=' inside, separators {space,;}, versions {50100,10110}, 3 pack types\"\n", cases)
}
