#!/bin/sh
# usage: check.sh <property> <tier>   — rebuilds govc if needed and runs the property check on /repo's working tree
export GOFLAGS=-mod=mod GOPROXY=off GOSUMDB=off GOTOOLCHAIN=local
cd /verif || exit 2
if [ ! -x bin/govc ] || [ -n "$(find govc -name '*.go' -newer bin/govc 2>/dev/null)" ]; then
  (cd govc && go build -o /verif/bin/govc .) || { echo "UNDECIDED: govc does not build"; exit 2; }
fi
exec bin/govc check -p "$1" -tier "${2:-quick}"
