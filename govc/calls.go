package main

// Calls: contracts, inlining, builtins, lock primitives; static write-set analysis for loop havoc.

import (
	"strconv"
	"fmt"
	"go/token"
	"go/types"
	"math/big"
	"strings"

	"golang.org/x/tools/go/ssa"
)

func newBig(n int64) *big.Int { return big.NewInt(n) }

func (fr *Frame) call(st *State, c *ssa.CallCommon, pos token.Pos, deferred bool) []Val {
	var args []Val
	for _, a := range c.Args {
		args = append(args, fr.val(a))
	}
	var fnv Val
	if c.Value != nil {
		if _, isB := c.Value.(*ssa.Builtin); !isB {
			fnv = fr.val(c.Value)
		}
	}
	return fr.callWith(st, c, args, fnv, pos, deferred)
}

func sigResults(sig *types.Signature) []types.Type {
	var out []types.Type
	for i := 0; i < sig.Results().Len(); i++ {
		out = append(out, sig.Results().At(i).Type())
	}
	return out
}

func (fr *Frame) callWith(st *State, c *ssa.CallCommon, args []Val, fnv Val, pos token.Pos, deferred bool) []Val {
	vc := fr.vc
	sig := c.Signature()
	// builtins
	if b, ok := c.Value.(*ssa.Builtin); ok {
		return fr.builtin(st, b, args, pos)
	}
	if c.IsInvoke() {
		recv := fnv
		// a method call on a nil interface panics
		fr.safety("nil-iface", fr.curCond, "(not (= "+recv.C[0]+" 0))", pos, "method call on a nil interface value")
		key := ifaceMethodKey(c.Value.Type(), c.Method.Name())
		if key == "sync.Locker.Lock" || key == "sync.Locker.Unlock" {
			// the mutex behind the Locker interface is identified by the interface payload
			mk := map[string]string{"sync.Locker.Lock": "sync.Mutex.Lock", "sync.Locker.Unlock": "sync.Mutex.Unlock"}[key]
			vc.fact(fr.curCond, "(> "+recv.C[1]+" 0)") // a Locker is a pointer to an allocated mutex
			if res, ok := fr.lockPrimitive(st, mk, []Val{{T: refT, C: []string{recv.C[1]}}}, pos); ok {
				return res
			}
		}
		all := append([]Val{recv}, args...)
		if fc := vc.fcOf(key); fc != nil {
			// a contract on the interface method itself (an assumed model).  When the dynamic type is statically evident
			// and the concrete method has a contract of its own (verified against its body), that one is used instead.
			if res, ok := fr.dispatchEvident(st, c, recv, args, pos); ok {
				return res
			}
			return fr.applyContract(st, fc, key, nil, sig, all, pos)
		}
		// no contract for the interface method: dispatch by case analysis over the repository types that implement
		// the interface (pointer receivers); any other dynamic type falls back to the arbitrary-result treatment
		if res, ok := fr.dispatchInvoke(st, c, recv, args, key, sig, pos); ok {
			return res
		}
		return fr.havocCall(st, "interface method "+key, sig, pos, true)
	}
	callee := c.StaticCallee()
	if callee == nil {
		// call through a function value: known closure?
		if cl, ok := fr.top().closures[fnv.C[0]]; ok {
			callee = cl.fn
			return fr.staticCall(st, callee, args, cl.bindings, pos)
		}
		// call through a function-valued struct field, x.F(args): an `extern pkg.Type.F(x, args...)` block is the
		// assumed contract of whatever function the field holds (first parameter = the object x)
		if key, fa, ok := funcFieldCall(c.Value); ok {
			if fc := vc.fcOf(key); fc != nil && fc.Extern {
				fr.safety("nilfunc", fr.curCond, "(not (= "+fnv.C[0]+" 0))", pos, "call of a nil function value")
				return fr.applyContract(st, fc, key, nil, sig, append([]Val{fr.val(fa.X)}, args...), pos)
			}
		}
		return fr.havocCall(st, "function value", sig, pos, true)
	}
	var bindings []Val
	if mc, ok := c.Value.(*ssa.MakeClosure); ok {
		for _, b := range mc.Bindings {
			bindings = append(bindings, fr.val(b))
		}
	}
	return fr.staticCall(st, callee, args, bindings, pos)
}

func (fr *Frame) staticCall(st *State, callee *ssa.Function, args []Val, bindings []Val, pos token.Pos) []Val {
	vc := fr.vc
	key := funcKey(callee)
	if res, ok := fr.lockPrimitive(st, key, args, pos); ok {
		return res
	}
	if res, ok := fr.intrinsic(st, callee, key, args, pos); ok {
		return res
	}
	fc := vc.fcOf(key)
	top := fr.top()
	if top.fc != nil && top.fc.Opts["abstract"] != "" {
		// `abstract pkg.F ...` in the unit's contract: calls to these callees are over-approximated by an arbitrary
		// effect (every heap location havoced, arbitrary results, no obligation, may not return): sound for any callee.
		// Used by units that decide something about this function alone (allocation budgets, C04).
		for _, a := range strings.Fields(strings.ReplaceAll(top.fc.Opts["abstract"], ",", " ")) {
			if a == key {
				vc.assumptions["callee "+key+" abstracted in this unit: arbitrary heap effect and result (over-approximation, its own allocations are its own unit's subject)"] = true
				for _, k := range vc.sortedHeapKeys() {
					if k == "top" || k == "held" {
						continue
					}
					st.heap[k] = vc.fresh(k, vc.heapSorts[k])
					vc.heapRange(k, st.heap[k], false)
				}
				return fr.havocCall(st, key, callee.Signature, pos, false)
			}
		}
	}
	useContract := fc != nil && !fc.Inline && fc.applicable(top.view)
	if top.lockOnly && callee.Blocks != nil && strings.HasPrefix(pkgPathOf(callee), "github.com/whatap/golib") {
		useContract = false // lock discipline is tracked through bodies
	}
	if useContract {
		return fr.applyContract(st, fc, key, callee, callee.Signature, args, pos)
	}
	if callee.Blocks != nil && fr.canInline(callee) {
		return fr.inline(st, callee, args, bindings, pos)
	}
	return fr.havocCall(st, key, callee.Signature, pos, false)
}

// funcFieldCall recognises a call whose function value was loaded from a struct field (t = *&x.F; t(args)) and
// returns the contract key "pkg.Type.F" and the field address instruction.
func funcFieldCall(v ssa.Value) (string, *ssa.FieldAddr, bool) {
	u, ok := v.(*ssa.UnOp)
	if !ok || u.Op != token.MUL {
		return "", nil, false
	}
	fa, ok := u.X.(*ssa.FieldAddr)
	if !ok {
		return "", nil, false
	}
	pt, ok := fa.X.Type().Underlying().(*types.Pointer)
	if !ok {
		return "", nil, false
	}
	S := pt.Elem()
	sst, ok := S.Underlying().(*types.Struct)
	if !ok {
		return "", nil, false
	}
	return structKey(S) + "." + sst.Field(fa.Field).Name(), fa, true
}

// dispatchEvident: the receiver's type component is a literal type id of a repository pointer type whose concrete
// method has a contract -> apply that contract.
func (fr *Frame) dispatchEvident(st *State, c *ssa.CallCommon, recv Val, args []Val, pos token.Pos) ([]Val, bool) {
	vc := fr.vc
	if fr.top().lockOnly || len(recv.C) < 2 {
		return nil, false
	}
	if _, err := strconv.Atoi(recv.C[0]); err != nil {
		return nil, false
	}
	// a model namespace of this unit's package that specifies the interface method itself wins over the concrete
	// method's contract (the model is the vocabulary the unit's other contracts are written in)
	ik := ifaceMethodKey(c.Value.Type(), c.Method.Name())
	for _, m := range vc.models {
		if vc.prog.cs.Funcs[m+"::"+ik] != nil {
			return nil, false
		}
	}
	for _, im := range vc.prog.implementations(c.Value.Type(), c.Method.Name()) {
		if recv.C[0] != vc.typeID(im.pt) {
			continue
		}
		ckey := funcKey(im.fn)
		fc := vc.fcOf(ckey)
		if fc != nil && !fc.Inline && fc.applicable(fr.top().view) {
			all := append([]Val{{T: im.pt, C: []string{recv.C[1]}}}, args...)
			return fr.applyContract(st, fc, ckey, im.fn, im.fn.Signature, all, pos), true
		}
	}
	return nil, false
}

func pkgPathOf(f *ssa.Function) string {
	if f.Pkg != nil {
		return f.Pkg.Pkg.Path()
	}
	if f.Parent() != nil {
		return pkgPathOf(f.Parent())
	}
	if o := f.Object(); o != nil && o.Pkg() != nil {
		return o.Pkg().Path()
	}
	return ""
}

func (fr *Frame) canInline(callee *ssa.Function) bool {
	if !strings.HasPrefix(pkgPathOf(callee), "github.com/whatap/golib") {
		return false
	}
	if fr.depth >= curDepthLimit {
		return false
	}
	for f := fr; f != nil; f = f.parent {
		if f.fn == callee {
			return false // recursion
		}
	}
	return true
}

// havocCall: a call about which nothing is known: results are arbitrary; heap effects are not modelled (recorded as assumption).
func (fr *Frame) havocCall(st *State, what string, sig *types.Signature, pos token.Pos, dynamic bool) []Val {
	vc := fr.vc
	vc.assumptions["uncontracted call to "+what+" treated as returning arbitrary values without heap effects"] = true
	// it may allocate
	t0 := vc.top(st)
	t1 := vc.fresh("top", "Int")
	vc.axiom("(>= " + t1 + " " + t0 + ")")
	st.heap["top"] = t1
	var out []Val
	for i, t := range sigResults(sig) {
		nv := vc.freshVal(fmt.Sprintf("r%d", i), t)
		fr.wfFact(st, nv, "true")
		if rf := vc.rangeFact(nv); rf != "" {
			vc.axiom(rf)
		}
		out = append(out, nv)
	}
	return out
}

func (fr *Frame) inline(st *State, callee *ssa.Function, args []Val, bindings []Val, pos token.Pos) []Val {
	vc := fr.vc
	top := fr.top()
	key := funcKey(callee)
	vc.inlined[key] = true
	nf := &Frame{vc: vc, fn: callee, fc: vc.fcOf(key), parent: fr, depth: fr.depth + 1, regs: map[ssa.Value]Val{},
		oblFn: top.oblFn, pathCond: fr.curCond}
	lbl := callee.Name()
	if callee.Signature.Recv() != nil {
		lbl = strings.TrimPrefix(key, pkgOfKey(key)+".")
	}
	if fr.label != "" {
		nf.label = fr.label + ">" + lbl
	} else {
		nf.label = lbl
	}
	nf.bindParams(args)
	for i, fv := range callee.FreeVars {
		if i < len(bindings) {
			nf.regs[fv] = bindings[i]
		}
	}
	nf.old = st.Clone()
	saved := st.defers
	st.defers = nil
	nf.savedDefers = saved
	res := nf.exec(st)
	top.unsupported = append(top.unsupported, nf.unsupported...)
	// continue only on paths where the callee returned
	*st = *res.st
	st.defers = saved
	if res.cond != fr.curCond {
		// callee may not return on all paths (panic): execution continues under its return condition
		nc := vc.define("ret_"+callee.Name(), "Bool", res.cond)
		fr.curCond = nc
		if nc == "false" {
			fr.dead = true
		}
	}
	return res.results
}

func pkgOfKey(key string) string {
	if k := strings.Index(key, "."); k >= 0 {
		return key[:k]
	}
	return key
}

// contractEnv builds the evaluation environment for a callee contract at a call site (or for the function itself).
func (fr *Frame) contractNames(fc *FuncContract, callee *ssa.Function, sig *types.Signature) (params []string, results []string) {
	if callee != nil && !fc.Extern {
		for _, p := range callee.Params {
			params = append(params, p.Name())
		}
	} else if len(fc.Params) > 0 {
		params = fc.Params
	} else if callee != nil {
		for _, p := range callee.Params {
			params = append(params, p.Name())
		}
	}
	if len(fc.Results) > 0 {
		results = fc.Results
	} else {
		for i := 0; i < sig.Results().Len(); i++ {
			results = append(results, sig.Results().At(i).Name())
		}
	}
	return
}

func bindResults(vars map[string]Val, names []string, rs []Val) {
	if len(rs) == 1 {
		vars["result"] = rs[0]
	}
	for i, r := range rs {
		vars[fmt.Sprintf("result%d", i)] = r
		if i < len(names) && names[i] != "" && names[i] != "_" {
			vars[names[i]] = r
		}
	}
}

func (fr *Frame) applyContract(st *State, fc *FuncContract, key string, callee *ssa.Function, sig *types.Signature, args []Val, pos token.Pos) []Val {
	vc := fr.vc
	top := fr.top()
	vc.usedContracts[key] = true
	if fc.Extern || fc.Trusted {
		vc.assumptions["assumed contract: "+key] = true
	}
	view := fc.selectView(fr.top().view)
	if view != "" {
		vc.assumptions["abstract ("+view+") view of "+key+" assumed at call sites (trusted abstraction of its verified byte-level contract)"] = true
	}
	pnames, rnames := fr.contractNames(fc, callee, sig)
	vars := map[string]Val{}
	for i, a := range args {
		if i < len(pnames) {
			vars[pnames[i]] = a
		}
	}
	pkg := vc.prog.typesPkgByName(fc.Pkg)
	env := &Env{vc: vc, st: st, old: st, vars: vars, pkg: pkg, pkgName: fc.Pkg}
	// a contract proved with bit-vector arithmetic means Go's wrapping arithmetic: its clauses keep that meaning when they
	// are used in a unit that reasons with mathematical integers
	crossBV := fc.ModeSet && fc.Mode == ModeBV && vc.mode == ModeInt
	env.goArith = crossBV
	if fc.ModeSet && fc.Mode == ModeInt && vc.mode == ModeBV {
		vc.assumptions["contract of "+key+" was proved with mathematical integers and is read with bit-vector arithmetic here (same meaning only while its expressions do not overflow)"] = true
	}
	cond := fr.curCond
	// receiver non-nil (implicit precondition of pointer-receiver methods of the repository)
	if callee != nil && callee.Signature.Recv() != nil && len(args) > 0 {
		if _, ok := args[0].T.Underlying().(*types.Pointer); ok && !fc.Extern {
			fr.safety("call:"+shortKey(key)+"/recv-nonnil", cond, "(not (= "+args[0].C[0]+" 0))", pos, "receiver must not be nil")
		}
	}
	for _, c := range clausesFor(fc.Requires, view) {
		t, err := env.EvalBool(c.E)
		if err != nil {
			fr.specError(c, err)
			continue
		}
		if top.lockOnly {
			continue
		}
		vc.oblige("pre", top.oblFn, fr.oblName("call:"+shortKey(key)+"/requires"), cond, t, fr.pos(pos), c.Text)
	}
	// totality: a caller that claims nopanic may rely on the callee only as far as the callee's contract excludes panics
	if top.nopanic && !top.lockOnly && !fc.Extern && !fc.Trusted {
		switch {
		case fc.NoPanicIf != nil:
			t, err := env.EvalBool(fc.NoPanicIf.E)
			if err != nil {
				fr.specError(fc.NoPanicIf, err)
			} else {
				vc.oblige("pre", top.oblFn, fr.oblName("call:"+shortKey(key)+"/nopanic-if"), andAll(cond, top.nopanicGuard), t, fr.pos(pos), "callee excludes panics only if: "+fc.NoPanicIf.Text)
			}
		case !fc.NoPanic:
			vc.assumptions["nopanic unit calls "+key+" whose contract does not exclude panics (assumed to return)"] = true
		}
	}
	pre := st.Clone()
	// the callee may allocate: advance the allocation watermark BEFORE havocing the modified locations, so that a
	// havoced pointer-valued location may hold an object allocated by the callee (its well-formedness fact is
	// "allocated in the post-state", not "allocated before the call")
	if !fc.Pure {
		t0 := vc.top(pre)
		t1 := vc.fresh("top", "Int")
		vc.axiom("(>= " + t1 + " " + t0 + ")")
		st.heap["top"] = t1
	}
	fr.applyModifies(st, fc, env, view)
	var results []Val
	for i, t := range sigResults(sig) {
		nv := vc.freshVal(fmt.Sprintf("%s_r%d", shortKey(key), i), t)
		fr.wfFact(st, nv, "true")
		if rf := vc.rangeFact(nv); rf != "" {
			vc.axiom(rf)
		}
		results = append(results, nv)
	}
	pvars := map[string]Val{}
	for k, v := range vars {
		pvars[k] = v
	}
	// an interface-typed result whose contract fixes its dynamic type by a top-level conjunct `istype(result, "T")`
	// carries that type id literally (the same fact the ensures clause states), so that later interface-method calls
	// on it are resolved statically
	for _, c := range clausesFor(fc.Ensures, view) {
		for _, part := range splitConj(c.E) {
			call, ok := part.(*ECall)
			if !ok || len(call.Args) != 2 {
				continue
			}
			id, ok := call.Fn.(*EIdent)
			if !ok || id.Name != "istype" {
				continue
			}
			rn, ok1 := call.Args[0].(*EIdent)
			ts, ok2 := call.Args[1].(*EStr)
			if !ok1 || !ok2 {
				continue
			}
			tt := vc.prog.typeByString(ts.Val, pkg)
			if tt == nil {
				continue
			}
			for i := range results {
				if _, isIface := results[i].T.Underlying().(*types.Interface); !isIface || len(results[i].C) < 2 {
					continue
				}
				if (rn.Name == "result" && len(results) == 1) || rn.Name == fmt.Sprintf("result%d", i) || (i < len(rnames) && rnames[i] != "" && rnames[i] == rn.Name) {
					results[i].C[0] = vc.typeID(tt)
				}
			}
		}
	}
	bindResults(pvars, rnames, results)
	penv := &Env{vc: vc, st: st, old: pre, vars: pvars, pkg: pkg, pkgName: fc.Pkg}
	penv.goArith = crossBV
	anyHeads := map[int]*State{}
	penv.headAny = func(k int) *State {
		if hs, ok := anyHeads[k]; ok {
			return hs
		}
		// an intermediate state of the callee (athead(K, .) in its postconditions): existentially quantified for the
		// caller, i.e. a state about which only the postconditions themselves say anything
		hs := st.Clone()
		for _, hk := range vc.sortedHeapKeys() {
			srt := vc.heapSorts[hk]
			hs.heap[hk] = vc.fresh(hk+"_mid", srt)
		}
		anyHeads[k] = hs
		return hs
	}
	for _, c := range clausesFor(fc.Ensures, view) {
		t, err := penv.EvalBool(c.E)
		if err != nil {
			fr.specError(c, err)
			continue
		}
		vc.fact(cond, t)
	}
	return results
}

func shortKey(key string) string {
	return strings.TrimPrefix(key, pkgOfKey(key)+".")
}

// applyModifies havocs the locations named in the callee's modifies clause.
func (fr *Frame) applyModifies(st *State, fc *FuncContract, env *Env, view string) {
	vc := fr.vc
	if fc.ModAll {
		for _, k := range vc.sortedHeapKeys() {
			srt := vc.heapSorts[k]
			if k == "top" || k == "held" {
				continue
			}
			st.heap[k] = vc.fresh(k, srt)
			vc.heapRange(k, st.heap[k], false)
		}
		return
	}
	// every target denotes a location of the PRE-state: evaluate all of them in a snapshot taken before the first
	// havoc, so that `modifies x.s, x.s[:]` havocs the backing array x.s had at the call
	penv := *env
	penv.st = st.Clone()
	for _, m := range fc.modifiesFor(view) {
		// `modifies ptrof(x, "T").f...` names a location only when x holds a T: the havoc is guarded by istype(x, "T")
		// (otherwise ptrof denotes an arbitrary address and the clause would havoc an unrelated object)
		var guard string
		if arg, tname, ok := findPtrof(m); ok {
			// the payload of an interface holding a struct VALUE is the address of its boxed copy: ptrof(x, "*T") is used
			// for both dynamic types T and *T
			var gs []string
			for _, tn := range []string{tname, strings.TrimPrefix(tname, "*")} {
				func() {
					defer func() { _ = recover() }()
					g := penv.eval(&ECall{Fn: &EIdent{Name: "istype"}, Args: []Expr{arg, &EStr{Val: tn}}}, nil)
					if len(g.C) == 1 {
						gs = append(gs, g.C[0])
					}
				}()
			}
			if len(gs) == 2 {
				guard = orAll(gs...)
			}
		}
		var before map[string]string
		if guard != "" {
			before = map[string]string{}
			for _, k := range vc.sortedHeapKeys() {
				if k != "top" && k != "held" {
					vc.hget(st, k, vc.heapSorts[k]) // make the current version explicit (heap entries are created on first use)
				}
			}
			for k, v := range st.heap {
				before[k] = v
			}
		}
		if err := fr.havocTarget(st, m, &penv); err != nil {
			vc.prog.specErrors = append(vc.prog.specErrors, fmt.Sprintf("%s:%d: modifies %s: %v", fc.File, fc.Line, m.String(), err))
		}
		if guard != "" {
			for _, k := range vc.sortedHeapKeys() {
				nv, ok := st.heap[k]
				ov, had := before[k]
				if !had {
					ov = vc.heapInit(k) // not written before this call: the initial version
				}
				if !ok || nv == ov {
					continue
				}
				n := vc.fresh(k, vc.heapSorts[k])
				vc.axiom("(= " + n + " (ite " + guard + " " + nv + " " + ov + "))")
				st.heap[k] = n
			}
		}
	}
}

// findPtrof returns the first ptrof(x, "T") application inside a modifies target.
func findPtrof(e Expr) (Expr, string, bool) {
	switch x := e.(type) {
	case *ECall:
		if id, ok := x.Fn.(*EIdent); ok && id.Name == "ptrof" && len(x.Args) == 2 {
			if s, ok := x.Args[1].(*EStr); ok {
				return x.Args[0], s.Val, true
			}
		}
		for _, a := range x.Args {
			if r, t, ok := findPtrof(a); ok {
				return r, t, true
			}
		}
	case *ESel:
		return findPtrof(x.X)
	case *EIndex:
		return findPtrof(x.X)
	case *ESlice:
		return findPtrof(x.X)
	}
	return nil, "", false
}

func (fr *Frame) havocTarget(st *State, m Expr, env *Env) (err error) {
	vc := fr.vc
	defer func() {
		if r := recover(); r != nil {
			if ee, ok := r.(evalErr); ok {
				err = fmt.Errorf("%s", ee.msg)
				return
			}
			panic(r)
		}
	}()
	switch x := m.(type) {
	case *ECall:
		if id, ok := x.Fn.(*EIdent); ok && id.Name == "all" {
			v := env.eval(x.Args[0], nil)
			ref, S, ok := derefStruct(v)
			if !ok {
				return fmt.Errorf("all() needs a struct object")
			}
			fr.havocObject(st, S, ref)
			return nil
		}
	case *ESel:
		// pkg.ghostGlobal (a ghost global of another package) ?
		if id, ok := x.X.(*EIdent); ok {
			if _, isVar := env.vars[id.Name]; !isVar && (env.pkg == nil || env.pkg.Scope().Lookup(id.Name) == nil) {
				if p := vc.prog.pkgByName(id.Name, env.pkg); p != nil && p.Scope().Lookup(x.Name) == nil {
					if g := vc.prog.ghostGlobalIn(x.Name, p.Name()); g != nil {
						t := env.resolveType(g.Type)
						vc.writeGlobal(st, "G:ghost."+g.Pkg+"."+x.Name, t, vc.freshVal(x.Name, t))
						return nil
					}
				}
			}
		}
		// Type.field (whole heap) ?
		if id, ok := x.X.(*EIdent); ok {
			if _, isVar := env.vars[id.Name]; !isVar && env.pkg != nil {
				if tn, ok := env.pkg.Scope().Lookup(id.Name).(*types.TypeName); ok {
					S := tn.Type()
					for _, k := range vc.sortedHeapKeys() {
			srt := vc.heapSorts[k]
						p := fieldKey(S, x.Name)
						if k == p || strings.HasPrefix(k, p+".") {
							st.heap[k] = vc.fresh(k, srt)
							vc.heapRange(k, st.heap[k], false)
						}
					}
					return nil
				}
			}
		}
		// pkg.Type.field (that field of every object of a type of another package)
		if tn := fr.qualifiedTypeName(x.X, env.vars, env.pkg); tn != nil {
			S := tn.Type()
			for _, k := range vc.sortedHeapKeys() {
			srt := vc.heapSorts[k]
				p := fieldKey(S, x.Name)
				if k == p || strings.HasPrefix(k, p+".") {
					st.heap[k] = vc.fresh(k, srt)
					vc.heapRange(k, st.heap[k], false)
				}
			}
			return nil
		}
		base := env.eval(x.X, nil)
		ref, S, ok := derefStruct(base)
		if !ok {
			return fmt.Errorf("modifies target is not a struct object")
		}
		if g := vc.prog.ghostField(structKey(S), x.Name); g != nil {
			t := env.ghostType(g)
			vc.writeKey(st, fieldKey(S, x.Name), t, ref, vc.freshVal(x.Name, t))
			return nil
		}
		// walk promoted path
		var pkg *types.Package
		if n, ok := S.(*types.Named); ok {
			pkg = n.Obj().Pkg()
		}
		obj, path, _ := types.LookupFieldOrMethod(S, true, pkg, x.Name)
		if _, ok := obj.(*types.Var); !ok {
			return fmt.Errorf("no field %s in %v", x.Name, S)
		}
		cur, curS := ref, S
		for k, idx := range path {
			f := curS.Underlying().(*types.Struct).Field(idx)
			if k == len(path)-1 {
				if isAggregate(f.Type()) {
					fr.havocObject(st, f.Type(), vc.emb(curS, f.Name(), cur))
				} else {
					nv := vc.freshVal(f.Name(), f.Type())
					fr.wfFact(st, nv, "true")
					if rf := vc.rangeFact(nv); rf != "" {
						vc.axiom(rf)
					}
					vc.writeKey(st, fieldKey(curS, f.Name()), f.Type(), cur, nv)
				}
				return nil
			}
			if pt, ok := f.Type().Underlying().(*types.Pointer); ok {
				cur = vc.readField(env.st, curS, f, cur).C[0]
				curS = pt.Elem()
			} else {
				cur = vc.emb(curS, f.Name(), cur)
				curS = f.Type()
			}
		}
		return nil
	case *ESlice, *EIndex:
		var bx Expr
		if s, ok := x.(*ESlice); ok {
			bx = s.X
		} else {
			bx = x.(*EIndex).X
		}
		v := env.eval(bx, nil)
		sl, ok := v.T.Underlying().(*types.Slice)
		if !ok {
			return fmt.Errorf("modifies s[:] needs a slice")
		}
		for _, c := range vc.flat(sl.Elem()) {
			s := vc.elemSort(c.sort)
			key := elemKey(sl.Elem()) + c.suf
			h := vc.hget(st, key, s)
			na := vc.fresh("havoc_arr", "(Array "+vc.idxSort()+" "+c.sort+")")
			vc.heapRange(key, na, true)
			vc.hset(st, key, s, "(store "+h+" "+v.C[0]+" "+na+")")
		}
		return nil
	case *EIdent:
		if g := vc.prog.ghostGlobalIn(x.Name, env.specPkg()); g != nil {
			t := env.ghostType(g)
			vc.writeGlobal(st, "G:ghost."+g.Pkg+"."+x.Name, t, vc.freshVal(x.Name, t))
			return nil
		}
		if env.pkg != nil {
			if gv, ok := env.pkg.Scope().Lookup(x.Name).(*types.Var); ok && !isAggregate(gv.Type()) {
				vc.writeGlobal(st, "G:"+gv.Pkg().Name()+"."+gv.Name(), gv.Type(), vc.freshVal(x.Name, gv.Type()))
				return nil
			}
		}
	}
	return fmt.Errorf("unsupported modifies target")
}

// qualifiedTypeName: e is `pkg.Type` (pkg not a variable in scope) naming a type of another loaded package.
func (fr *Frame) qualifiedTypeName(e Expr, vars map[string]Val, pkg *types.Package) *types.TypeName {
	sel, ok := e.(*ESel)
	if !ok {
		return nil
	}
	id, ok := sel.X.(*EIdent)
	if !ok {
		return nil
	}
	if _, isVar := vars[id.Name]; isVar {
		return nil
	}
	p := fr.vc.prog.pkgByName(id.Name, pkg)
	if p == nil {
		return nil
	}
	tn, _ := p.Scope().Lookup(sel.Name).(*types.TypeName)
	return tn
}

// havocObject havocs every field (real and ghost) of the struct object at ref.
func (fr *Frame) havocObject(st *State, S types.Type, ref string) {
	vc := fr.vc
	if _, ok := S.Underlying().(*types.Struct); !ok {
		return
	}
	for _, f := range structFields(S) {
		if isAggregate(f.Type()) {
			fr.havocObject(st, f.Type(), vc.emb(S, f.Name(), ref))
			continue
		}
		nv := vc.freshVal(f.Name(), f.Type())
		fr.wfFact(st, nv, "true")
		if rf := vc.rangeFact(nv); rf != "" {
			vc.axiom(rf)
		}
		vc.writeKey(st, fieldKey(S, f.Name()), f.Type(), ref, nv)
	}
	env := &Env{vc: vc, pkg: nil}
	for _, g := range vc.prog.ghostFieldsOf(structKey(S)) {
		env.pkg = vc.prog.typesPkgByName(g.Pkg)
		t := env.ghostType(g)
		vc.writeKey(st, fieldKey(S, g.Name), t, ref, vc.freshVal(g.Name, t))
	}
}

// ---------- lock primitives (assumed contracts of sync) ----------

func (fr *Frame) lockPrimitive(st *State, key string, args []Val, pos token.Pos) ([]Val, bool) {
	vc := fr.vc
	top := fr.top()
	switch key {
	case "sync.Mutex.Lock", "sync.RWMutex.Lock", "sync.RWMutex.RLock":
		m := args[0].C[0]
		vc.assumptions["assumed contract: "+key+" (requires !held — sync mutexes are not re-entrant; ensures held)"] = true
		vc.oblige("lock", top.oblFn, fr.oblName("lock-not-held"), fr.curCond, notT(vc.heldTerm(st, m)), fr.pos(pos), "Lock() while this goroutine already holds the mutex (self-deadlock)")
		h := vc.hget(st, "held", "(Array Int Bool)")
		vc.hset(st, "held", "(Array Int Bool)", "(store "+h+" "+m+" true)")
		return nil, true
	case "sync.Mutex.Unlock", "sync.RWMutex.Unlock", "sync.RWMutex.RUnlock":
		m := args[0].C[0]
		vc.assumptions["assumed contract: "+key+" (requires held; ensures !held)"] = true
		vc.oblige("lock", top.oblFn, fr.oblName("unlock-held"), fr.curCond, vc.heldTerm(st, m), fr.pos(pos), "Unlock() of a mutex that is not held")
		h := vc.hget(st, "held", "(Array Int Bool)")
		vc.hset(st, "held", "(Array Int Bool)", "(store "+h+" "+m+" false)")
		return nil, true
	case "sync.Cond.Wait":
		// requires the associated lock held; releases and re-acquires it: everything shared may change
		vc.assumptions["assumed contract: sync.Cond.Wait (monitor havoc of all heap state; lock held before and after)"] = true
		fr.monitorClauses(st, pos, false)
		for _, k := range vc.sortedHeapKeys() {
			srt := vc.heapSorts[k]
			if k == "top" || k == "held" || strings.HasPrefix(k, "F:sync.Cond.") {
				continue
			}
			st.heap[k] = vc.fresh(k, srt)
			vc.heapRange(k, st.heap[k], false)
		}
		t0 := vc.top(st)
		t1 := vc.fresh("top", "Int")
		vc.axiom("(>= " + t1 + " " + t0 + ")")
		st.heap["top"] = t1
		fr.afterWait(st)
		return nil, true
	case "sync.Cond.Broadcast", "sync.Cond.Signal":
		return nil, true
	}
	return nil, false
}

// afterWait: the monitor invariant (`monitor E` clauses of the unit) holds again when Wait returns.
func (fr *Frame) afterWait(st *State) { fr.monitorClauses(st, token.NoPos, true) }

// monitorClauses: `monitor E` of the unit under verification — an obligation before Wait releases the lock
// (assume == false), an assumption when Wait has re-acquired it (assume == true). E is evaluated over the parameters
// of the unit; old(...) is the unit's entry state.
func (fr *Frame) monitorClauses(st *State, pos token.Pos, assume bool) {
	vc := fr.vc
	top := fr.top()
	if top.fc == nil || top.lockOnly || len(top.fc.Monitor) == 0 {
		return
	}
	vars := map[string]Val{}
	for n, v := range top.params {
		vars[n] = v
	}
	var pkg *types.Package
	if top.fn.Pkg != nil {
		pkg = top.fn.Pkg.Pkg
	}
	env := &Env{vc: vc, st: st, old: top.old, vars: vars, pkg: pkg}
	for _, c := range top.fc.Monitor {
		if assume {
			t, err := env.EvalBool(c.E)
			if err != nil {
				continue
			}
			vc.fact(fr.curCond, t)
			vc.assumptions["monitor invariant of "+top.oblFn+" assumed at wake-up from sync.Cond.Wait (rely condition on the other goroutines): "+c.Text] = true
			continue
		}
		for _, part := range splitConj(c.E) {
			t, err := env.EvalBool(part)
			if err != nil {
				fr.specError(c, err)
				continue
			}
			vc.oblige("monitor", top.oblFn, fr.oblName("wait-monitor"), fr.curCond, t, fr.pos(pos), part.String())
		}
	}
}

// ---------- intrinsics (verification helper functions declared in zz_*_verif.go files) ----------

func (fr *Frame) intrinsic(st *State, callee *ssa.Function, key string, args []Val, pos token.Pos) ([]Val, bool) {
	vc := fr.vc
	name := callee.Name()
	if k := strings.Index(name, "["); k > 0 {
		name = name[:k] // instantiated generic
	}
	if strings.HasPrefix(name, "vsliceeq_") {
		name = "vsliceeq"
	}
	if strings.HasPrefix(name, "vvalueeq_") {
		name = "vvalueeq"
	}
	if strings.HasPrefix(name, "vsamefields_") && len(args) == 2 {
		// field-by-field equality of two struct objects, fields enumerated from go/types at verification time
		if pt, ok := args[0].T.Underlying().(*types.Pointer); ok {
			fr.sameFieldsObligations(st, pt.Elem(), args[0].C[0], args[1].C[0], "", pos)
			return []Val{{T: types.Typ[types.Bool], C: []string{"true"}}}, true
		}
	}
	top := fr.top()
	switch name {
	case "vassert":
		if callee.Signature.Recv() == nil && len(args) == 1 {
			vc.oblige("assert", top.oblFn, fr.oblName("assert"), fr.curCond, args[0].C[0], fr.pos(pos), "vassert")
			return nil, true
		}
	case "vstreq":
		if callee.Signature.Recv() == nil && len(args) == 2 {
			return []Val{{T: types.Typ[types.Bool], C: []string{vc.strEqExt(args[0].C[0], args[1].C[0])}}}, true
		}
	case "vvalueeq":
		if len(args) == 2 {
			// two interface values: both nil, or same dynamic type and equal content
			a, b := args[0], args[1]
			t := "(= " + a.C[0] + " " + b.C[0] + ")"
			if len(a.C) == 2 && len(b.C) == 2 {
				t = "(and (= " + a.C[0] + " " + b.C[0] + ") (= " + a.C[1] + " " + b.C[1] + "))"
			}
			if sf := vc.prog.specFnIn("valeq", "value"); sf != nil {
				ve := vc.declareSpecFn(sf)
				av, bv := a.C[len(a.C)-1], b.C[len(b.C)-1]
				if len(a.C) == 2 {
					t = "(or " + t + " (and (= " + a.C[0] + " " + b.C[0] + ") (not (= " + a.C[0] + " 0)) (" + ve + " " + av + " " + bv + ")))"
				} else {
					t = "(or (= " + av + " " + bv + ") (and (not (= " + av + " 0)) (not (= " + bv + " 0)) (" + ve + " " + av + " " + bv + ")))"
				}
			}
			return []Val{{T: types.Typ[types.Bool], C: []string{t}}}, true
		}
	case "vpackeq":
		if len(args) == 2 && len(args[0].C) == 2 && len(args[1].C) == 2 {
			// two pack interface values: both nil, or same dynamic type and content-equal objects (packeq)
			a, b := args[0], args[1]
			t := "(and (= " + a.C[0] + " " + b.C[0] + ") (= " + a.C[1] + " " + b.C[1] + "))"
			if sf := vc.prog.specFnIn("packeq", "pack"); sf != nil {
				pe := vc.declareSpecFn(sf)
				t = "(or " + t + " (and (= " + a.C[0] + " " + b.C[0] + ") (not (= " + a.C[0] + " 0)) (" + pe + " " + a.C[1] + " " + b.C[1] + ")))"
			}
			return []Val{{T: types.Typ[types.Bool], C: []string{t}}}, true
		}
	case "vstreameq":
		if len(args) == 2 {
			// the comparison is discharged position by position (quantifier-free obligations); the call itself yields true
			fr.streamEqObligations(st, args[0], args[1], pos)
			return []Val{{T: types.Typ[types.Bool], C: []string{"true"}}}, true
		}
	case "vstreameqall":
		if len(args) == 2 {
			// quantified variant of vstreameq for streams whose token count is not static (loops): same count and,
			// at every position, same kind and same payload of that kind
			fr.streamEqAllObligations(st, args[0], args[1], pos)
			return []Val{{T: types.Typ[types.Bool], C: []string{"true"}}}, true
		}
	case "vsliceeq":
		if len(args) == 2 {
			return []Val{{T: types.Typ[types.Bool], C: []string{fr.sliceEqExt(st, args[0], args[1])}}}, true
		}
	case "vassume":
		if callee.Signature.Recv() == nil && len(args) == 1 {
			vc.fact(fr.curCond, args[0].C[0])
			vc.assumptions["vassume in "+funcKey(fr.fn)] = true
			return nil, true
		}
	}
	switch key {
	case "math.Float32bits", "math.Float64bits", "math.Float32frombits", "math.Float64frombits":
		vc.assumptions["assumed contract: "+key+" is a bit-cast (floats are modelled by their bit patterns)"] = true
		return []Val{{T: callee.Signature.Results().At(0).Type(), C: args[0].C}}, true
	}
	return nil, false
}

// ---------- builtins ----------

func (fr *Frame) builtin(st *State, b *ssa.Builtin, args []Val, pos token.Pos) []Val {
	vc := fr.vc
	it := types.Typ[types.Int]
	switch b.Name() {
	case "len", "cap":
		v := args[0]
		switch u := v.T.Underlying().(type) {
		case *types.Slice:
			if b.Name() == "len" {
				return []Val{{T: it, C: []string{v.C[2]}}}
			}
			return []Val{{T: it, C: []string{v.C[3]}}}
		case *types.Basic:
			return []Val{{T: it, C: []string{"(gs.len " + v.C[0] + ")"}}}
		case *types.Array:
			return []Val{{T: it, C: []string{vc.idx(u.Len())}}}
		case *types.Pointer:
			if a, ok := u.Elem().Underlying().(*types.Array); ok {
				return []Val{{T: it, C: []string{vc.idx(a.Len())}}}
			}
		case *types.Map, *types.Chan:
			n := vc.fresh("maplen", vc.idxSort())
			vc.axiom(vc.ile(vc.idx(0), n))
			return []Val{{T: it, C: []string{n}}}
		}
		panic("len of " + v.T.String())
	case "append":
		return []Val{fr.appendBuiltin(st, args, pos)}
	case "copy":
		return []Val{fr.copyBuiltin(st, args, pos)}
	case "recover":
		rt := types.NewInterfaceType(nil, nil)
		if fr.isPanicking() {
			fr.markRecovered()
			tv := vc.fresh("recovered", "Int")
			vc.axiom("(> " + tv + " 0)")
			return []Val{{T: rt, C: []string{tv, vc.fresh("recval", "Int")}}}
		}
		return []Val{{T: rt, C: []string{"0", "0"}}}
	case "print", "println", "delete", "close":
		return nil
	case "min", "max":
		a, bb := args[0], args[1]
		lt, _ := vc.binop(token.LSS, a.C[0], bb.C[0], a.T, bb.T, false)
		if b.Name() == "min" {
			return []Val{{T: a.T, C: []string{"(ite " + lt + " " + a.C[0] + " " + bb.C[0] + ")"}}}
		}
		return []Val{{T: a.T, C: []string{"(ite " + lt + " " + bb.C[0] + " " + a.C[0] + ")"}}}
	case "ssa:deferstack":
		return []Val{vc.zero(b.Type().(*types.Signature).Results().At(0).Type())}
	case "ssa:wrapnilchk":
		return []Val{args[0]}
	}
	fr.top().unsupported = append(fr.top().unsupported, "builtin "+b.Name())
	sig := b.Type().(*types.Signature)
	var out []Val
	for _, t := range sigResults(sig) {
		out = append(out, vc.freshVal("b", t))
	}
	return out
}

func (fr *Frame) isPanicking() bool {
	for f := fr; f != nil; f = f.parent {
		if f.curPanicking {
			return true
		}
	}
	return false
}

func (fr *Frame) markRecovered() {
	for f := fr; f != nil; f = f.parent {
		if f.curPanicking {
			f.recovered = true
			return
		}
	}
}

// append(s, elems...) — second argument is a slice (or string for []byte).
func (fr *Frame) appendBuiltin(st *State, args []Val, pos token.Pos) Val {
	vc := fr.vc
	s := args[0]
	add := args[1]
	sl := s.T.Underlying().(*types.Slice)
	et := sl.Elem()
	cs := vc.flat(et)
	var addLen string
	addIsStr := isString(add.T)
	if addIsStr {
		addLen = "(gs.len " + add.C[0] + ")"
	} else {
		addLen = add.C[2]
	}
	newLen := vc.define("applen", vc.idxSort(), vc.iadd(s.C[2], addLen))
	// result: either in place (fits capacity) or a fresh array; both cases are kept: result array is arbitrary subject to contents
	fits := vc.ile(newLen, s.C[3])
	narr := vc.allocRef(st, "append")
	resArr := vc.define("apparr", "Int", "(ite "+fits+" "+s.C[0]+" "+narr+")")
	resOff := vc.define("appoff", vc.idxSort(), "(ite "+fits+" "+s.C[1]+" "+vc.idx(0)+")")
	ncap := vc.fresh("appcap", vc.idxSort())
	vc.axiom(vc.ile(newLen, ncap))
	resCap := "(ite " + fits + " " + s.C[3] + " " + ncap + ")"
	if isAggregate(et) {
		vc.warn("append of aggregate elements not modelled")
		return Val{T: s.T, C: []string{resArr, resOff, newLen, resCap}}
	}
	i := vc.idxSort()
	for ci, c := range cs {
		key := elemKey(et) + c.suf
		srt := vc.elemSort(c.sort)
		h := vc.hget(st, key, srt)
		oldA := "(select " + h + " " + s.C[0] + ")"
		newA := vc.fresh("appdata", "(Array "+i+" "+c.sort+")")
		// prefix preserved
		vc.axiom("(forall ((k " + i + ")) (! (=> (and " + vc.ile(vc.idx(0), "k") + " " + vc.ilt("k", s.C[2]) + ") (= (select " + newA + " " + vc.eidx(resOff, "k") + ") (select " + oldA + " " + vc.eidx(s.C[1], "k") + "))) :pattern ((select " + newA + " " + vc.eidx(resOff, "k") + "))))")
		// appended
		var src string
		if addIsStr {
			src = "(gs.at " + add.C[0] + " k)"
		} else {
			src = "(select (select " + h + " " + add.C[0] + ") " + vc.iadd(add.C[1], "k") + ")"
		}
		_ = ci
		vc.axiom("(forall ((k " + i + ")) (! (=> (and " + vc.ile(vc.idx(0), "k") + " " + vc.ilt("k", addLen) + ") (= (select " + newA + " " + vc.iadd(resOff, vc.iadd(s.C[2], "k")) + ") " + src + ")) :pattern ((select " + newA + " " + vc.iadd(resOff, vc.iadd(s.C[2], "k")) + "))))")
		// in-place case: cells of the old array outside [off+len, off+newLen) are unchanged
		vc.axiom("(=> " + fits + " (forall ((k " + i + ")) (! (=> (or " + vc.ilt("k", vc.iadd(s.C[1], s.C[2])) + " " + vc.ile(vc.iadd(s.C[1], newLen), "k") + ") (= (select " + newA + " k) (select " + oldA + " k))) :pattern ((select " + newA + " k)))))")
		vc.hset(st, key, srt, "(store "+h+" "+resArr+" "+newA+")")
	}
	// token view of package io (a byte array stands for the token stream it holds): a fresh array that is a full copy of
	// a byte slice (append to an empty slice without capacity, e.g. append([]byte(nil), b...)) stands for the stream that
	// b's array stands for.  Same abstraction as DataInputX.ReadBlob / compressutil.UnZip in that view; reported as an assumption.
	if tokViewBytes(fr.top().view, et) && !addIsStr && vc.mode == ModeInt {
		copied := "(and (not " + fits + ") (= " + s.C[2] + " " + vc.idx(0) + "))"
		for _, name := range ioStreamGhosts {
			key := "G:ghost.io." + name
			srt, ok := vc.heapSorts[key]
			if !ok {
				continue
			}
			h := vc.hget(st, key, srt)
			vc.hset(st, key, srt, "(ite "+copied+" (store "+h+" "+narr+" (select "+h+" "+add.C[0]+")) "+h+")")
			vc.assumptions["token view: a full copy of a byte slice made with append (append([]byte(nil), b...)) stands for the same token stream as b's array"] = true
		}
	}
	return Val{T: s.T, C: []string{resArr, resOff, newLen, resCap}}
}

// the ghost maps of package io that give the token stream denoted by a byte array (zz_tokens_verif.go)
var ioStreamGhosts = []string{"S_n", "S_k", "S_i", "S_s", "S_r", "S_o"}

// tokViewBytes: the unit selected the token view and the element type is byte
func tokViewBytes(views string, et types.Type) bool {
	b, ok := et.Underlying().(*types.Basic)
	if !ok || b.Kind() != types.Uint8 {
		return false
	}
	for _, v := range strings.Fields(views) {
		if v == "tok" {
			return true
		}
	}
	return false
}

func (fr *Frame) copyBuiltin(st *State, args []Val, pos token.Pos) Val {
	vc := fr.vc
	dst, src := args[0], args[1]
	it := types.Typ[types.Int]
	sl := dst.T.Underlying().(*types.Slice)
	et := sl.Elem()
	var srcLen string
	srcIsStr := isString(src.T)
	if srcIsStr {
		srcLen = "(gs.len " + src.C[0] + ")"
	} else {
		srcLen = src.C[2]
	}
	n := vc.define("copyn", vc.idxSort(), "(ite "+vc.ilt(dst.C[2], srcLen)+" "+dst.C[2]+" "+srcLen+")")
	if isAggregate(et) {
		vc.warn("copy of aggregate elements not modelled")
		return Val{T: it, C: []string{n}}
	}
	i := vc.idxSort()
	for _, c := range vc.flat(et) {
		key := elemKey(et) + c.suf
		srt := vc.elemSort(c.sort)
		h := vc.hget(st, key, srt)
		oldD := "(select " + h + " " + dst.C[0] + ")"
		newD := vc.fresh("copydata", "(Array "+i+" "+c.sort+")")
		var srcAt string
		if srcIsStr {
			srcAt = "(gs.at " + src.C[0] + " " + vc.isub("k", dst.C[1]) + ")"
		} else {
			srcAt = "(select (select " + h + " " + src.C[0] + ") " + vc.iadd(src.C[1], vc.isub("k", dst.C[1])) + ")"
		}
		vc.axiom("(forall ((k " + i + ")) (! (= (select " + newD + " k) (ite (and " + vc.ile(dst.C[1], "k") + " " + vc.ilt("k", vc.iadd(dst.C[1], n)) + ") " + srcAt + " (select " + oldD + " k))) :pattern ((select " + newD + " k))))")
		vc.hset(st, key, srt, "(store "+h+" "+dst.C[0]+" "+newD+")")
	}
	return Val{T: it, C: []string{n}}
}

// ---------- static write-set analysis (for loop havoc) ----------

type writeSet struct {
	locals map[*ssa.Alloc]bool
	keys   map[string]bool
	all    bool
	allocs bool
	locks  bool
}

func newWriteSet() *writeSet {
	return &writeSet{locals: map[*ssa.Alloc]bool{}, keys: map[string]bool{}}
}

func (w *writeSet) merge(o *writeSet) {
	for k := range o.keys {
		w.keys[k] = true
	}
	w.all = w.all || o.all
	w.allocs = w.allocs || o.allocs
	w.locks = w.locks || o.locks
}

func (fr *Frame) loopWrites(li *loopInfo) *writeSet {
	w := newWriteSet()
	for b := range li.body {
		for _, ins := range b.Instrs {
			fr.instrWrites(w, ins, map[*ssa.Function]bool{fr.fn: true}, 0)
		}
	}
	// ghost fields assigned by `loop K set` clauses of this loop and of the loops nested in it
	for hb, lj := range fr.loops {
		if li.body[hb] && lj.spec != nil {
			fr.ghostSetKeys(w, lj.spec.Sets)
			if lj != li {
				// a nested loop is entered (and its `init` updates run) in every iteration of this loop
				fr.ghostSetKeys(w, lj.spec.Inits)
			}
		}
	}
	return w
}

// ghostSetKeys adds the heap keys of the ghost fields (or ghost globals) named as targets of ghost updates. The struct
// type of a target x.g is not resolved here: every ghost field called g counts (over-approximation of the havoc set).
func (fr *Frame) ghostSetKeys(w *writeSet, sets []*GhostUpd) {
	for _, gu := range sets {
		switch x := gu.Target.(type) {
		case *ESel:
			for _, g := range fr.vc.prog.cs.Ghosts {
				if g.Struct != "" && g.Name == x.Name {
					w.keys["F:"+g.Struct+"."+g.Name] = true
				}
			}
		case *EIdent:
			for _, g := range fr.vc.prog.cs.Ghosts {
				if g.Struct == "" && g.Name == x.Name {
					w.keys["G:ghost."+g.Pkg+"."+g.Name] = true
				}
			}
		}
	}
}

func (fr *Frame) addStructKeys(w *writeSet, S types.Type) {
	vc := fr.vc
	switch u := S.Underlying().(type) {
	case *types.Struct:
		for _, f := range structFields(S) {
			if isAggregate(f.Type()) {
				fr.addStructKeys(w, f.Type())
			} else {
				w.keys[fieldKey(S, f.Name())] = true
			}
		}
		for _, g := range vc.prog.ghostFieldsOf(structKey(S)) {
			w.keys[fieldKey(S, g.Name)] = true
		}
	case *types.Array:
		if !isAggregate(u.Elem()) {
			w.keys[elemKey(u.Elem())] = true
		}
	}
}

func (fr *Frame) instrWrites(w *writeSet, ins ssa.Instruction, seen map[*ssa.Function]bool, depth int) {
	switch x := ins.(type) {
	case *ssa.Store:
		fr.addrWrites(w, x.Addr)
	case *ssa.Alloc:
		et := x.Type().(*types.Pointer).Elem()
		if isAggregate(et) {
			w.allocs = true
			fr.addStructKeys(w, et)
		} else if x.Heap {
			w.allocs = true
			w.keys[cellKey(et)] = true
		} else {
			w.locals[x] = true
		}
	case *ssa.MakeSlice:
		w.allocs = true
		et := x.Type().Underlying().(*types.Slice).Elem()
		if !isAggregate(et) {
			w.keys[elemKey(et)] = true
		}
		w.keys["G:ghost.allocated"] = true
	case *ssa.MakeMap, *ssa.MakeChan, *ssa.MakeClosure:
		w.allocs = true
	case *ssa.Convert:
		if isString(x.X.Type()) {
			if sl, ok := x.Type().Underlying().(*types.Slice); ok {
				w.allocs = true
				w.keys[elemKey(sl.Elem())] = true
			}
		}
	case *ssa.Call:
		fr.callWrites(w, &x.Call, seen, depth)
	case *ssa.Defer:
		fr.callWrites(w, &x.Call, seen, depth)
	case *ssa.RunDefers:
		// defers registered in this function run here
		for _, b := range x.Parent().Blocks {
			for _, i2 := range b.Instrs {
				if d, ok := i2.(*ssa.Defer); ok {
					fr.callWrites(w, &d.Call, seen, depth)
				}
			}
		}
	}
}

func (fr *Frame) addrWrites(w *writeSet, addr ssa.Value) {
	switch a := addr.(type) {
	case *ssa.Alloc:
		et := a.Type().(*types.Pointer).Elem()
		if !a.Heap && !isAggregate(et) {
			w.locals[a] = true
			return
		}
		if isAggregate(et) {
			fr.addStructKeys(w, et)
		} else {
			w.keys[cellKey(et)] = true
		}
	case *ssa.FieldAddr:
		S := a.X.Type().Underlying().(*types.Pointer).Elem()
		f := S.Underlying().(*types.Struct).Field(a.Field)
		if isAggregate(f.Type()) {
			fr.addStructKeys(w, f.Type())
		} else {
			w.keys[fieldKey(S, f.Name())] = true
		}
	case *ssa.IndexAddr:
		var et types.Type
		switch u := a.X.Type().Underlying().(type) {
		case *types.Slice:
			et = u.Elem()
		case *types.Pointer:
			et = u.Elem().Underlying().(*types.Array).Elem()
		}
		if et != nil {
			if isAggregate(et) {
				fr.addStructKeys(w, et)
			} else {
				w.keys[elemKey(et)] = true
			}
		}
	case *ssa.Global:
		gv := a.Object().(*types.Var)
		t := a.Type().(*types.Pointer).Elem()
		if isAggregate(t) {
			fr.addStructKeys(w, t)
		} else {
			w.keys["G:"+gv.Pkg().Name()+"."+gv.Name()] = true
		}
	default:
		et := addr.Type().Underlying().(*types.Pointer).Elem()
		if isAggregate(et) {
			fr.addStructKeys(w, et)
		} else {
			w.keys[cellKey(et)] = true
		}
	}
}

func (fr *Frame) callWrites(w *writeSet, c *ssa.CallCommon, seen map[*ssa.Function]bool, depth int) {
	vc := fr.vc
	w.allocs = true
	if b, ok := c.Value.(*ssa.Builtin); ok {
		switch b.Name() {
		case "append", "copy":
			if sl, ok := c.Args[0].Type().Underlying().(*types.Slice); ok && !isAggregate(sl.Elem()) {
				w.keys[elemKey(sl.Elem())] = true
				if b.Name() == "append" && tokViewBytes(fr.top().view, sl.Elem()) {
					// token view: the copy carries the stream of its source (see appendBuiltin)
					for _, name := range ioStreamGhosts {
						w.keys["G:ghost.io."+name] = true
					}
				}
			}
		}
		return
	}
	var fc *FuncContract
	var callee *ssa.Function
	var fieldFn *ssa.FieldAddr
	if c.IsInvoke() {
		fc = vc.fcOf(ifaceMethodKey(c.Value.Type(), c.Method.Name()))
	} else if key, fa, ok := funcFieldCall(c.Value); ok && c.StaticCallee() == nil && vc.fcOf(key) != nil && vc.fcOf(key).Extern {
		fc, fieldFn = vc.fcOf(key), fa
	} else {
		callee = c.StaticCallee()
		if callee == nil {
			if mc, ok := c.Value.(*ssa.MakeClosure); ok {
				callee = mc.Fn.(*ssa.Function)
			}
		}
		if callee != nil {
			key := funcKey(callee)
			switch key {
			case "sync.Mutex.Lock", "sync.Mutex.Unlock", "sync.RWMutex.Lock", "sync.RWMutex.Unlock", "sync.RWMutex.RLock", "sync.RWMutex.RUnlock":
				w.locks = true
				return
			case "sync.Cond.Wait":
				w.all = true
				return
			}
			fc = vc.fcOf(key)
		}
	}
	useContract := fc != nil && !fc.Inline && fc.applicable(fr.top().view)
	if c.IsInvoke() && depth <= curDepthLimit {
		// the call may be resolved on the dynamic type when executed (dispatchInvoke: no interface contract; dispatchEvident:
		// evident type whose concrete method has a contract): the write set covers every implementation - the modifies
		// clause of its contract (ghost state included) or, without an applicable contract, the writes of its body
		for _, im := range vc.prog.implementations(c.Value.Type(), c.Method.Name()) {
			if ifc := vc.fcOf(funcKey(im.fn)); ifc != nil && !ifc.Inline && ifc.applicable(fr.top().view) && !fr.top().lockOnly {
				if ifc.ModAll {
					w.all = true
					continue
				}
				iptypes := map[string]types.Type{}
				ipn, _ := fr.contractNames(ifc, im.fn, im.fn.Signature)
				iargs := []types.Type{im.pt}
				for _, a := range c.Args {
					iargs = append(iargs, a.Type())
				}
				for i, n := range ipn {
					if i < len(iargs) {
						iptypes[n] = iargs[i]
					}
				}
				ipkg := vc.prog.typesPkgByName(ifc.Pkg)
				for _, m := range ifc.modifiesFor(ifc.selectView(fr.top().view)) {
					if !fr.staticModKeys(w, m, iptypes, ipkg) {
						w.all = true
					}
				}
				continue
			}
			if fc != nil {
				continue // the interface contract is used for this implementation
			}
			if seen[im.fn] {
				continue
			}
			seen[im.fn] = true
			for _, b := range im.fn.Blocks {
				for _, ins := range b.Instrs {
					sub := newWriteSet()
					fr.instrWrites(sub, ins, seen, depth+1)
					w.merge(sub)
				}
			}
			delete(seen, im.fn)
		}
	}
	if fr.top().lockOnly && callee != nil && callee.Blocks != nil && strings.HasPrefix(pkgPathOf(callee), "github.com/whatap/golib") {
		useContract = false
	}
	if useContract {
		if fc.ModAll {
			w.all = true
			return
		}
		var sig *types.Signature = c.Signature()
		ptypes := map[string]types.Type{}
		pn, _ := fr.contractNames(fc, callee, sig)
		var argTypes []types.Type
		if c.IsInvoke() {
			argTypes = append(argTypes, c.Value.Type())
		}
		if fieldFn != nil {
			argTypes = append(argTypes, fieldFn.X.Type())
		}
		for _, a := range c.Args {
			argTypes = append(argTypes, a.Type())
		}
		for i, n := range pn {
			if i < len(argTypes) {
				ptypes[n] = argTypes[i]
			}
		}
		pkg := vc.prog.typesPkgByName(fc.Pkg)
		mview := fc.selectView(fr.top().view)
		for _, m := range fc.modifiesFor(mview) {
			if !fr.staticModKeys(w, m, ptypes, pkg) {
				w.all = true
			}
		}
		return
	}
	if callee != nil && callee.Blocks != nil && strings.HasPrefix(pkgPathOf(callee), "github.com/whatap/golib") {
		if seen[callee] || depth > curDepthLimit {
			if seen[callee] {
				return
			}
			w.all = true
			return
		}
		seen[callee] = true
		if cfc := vc.fcOf(funcKey(callee)); cfc != nil {
			// an inlined callee executes the ghost updates of its loops
			for _, ls := range cfc.Loops {
				fr.ghostSetKeys(w, ls.Sets)
				fr.ghostSetKeys(w, ls.Inits)
			}
		}
		for _, b := range callee.Blocks {
			for _, ins := range b.Instrs {
				sub := newWriteSet()
				fr.instrWrites(sub, ins, seen, depth+1)
				w.merge(sub)
			}
		}
		delete(seen, callee)
		return
	}
	// unknown external call: no modelled heap effects (recorded as assumption when executed)
}

// staticType computes the static type of a modifies-target prefix expression.
func (fr *Frame) staticType(e Expr, ptypes map[string]types.Type, pkg *types.Package) types.Type {
	switch x := e.(type) {
	case *EIdent:
		if t, ok := ptypes[x.Name]; ok {
			return t
		}
	case *ECall:
		// ptrof(iface, "*pkg.T"): the static type is the named one (so that `modifies ptrof(e, "*T").f` havocs only T.f at loop heads)
		if id, ok := x.Fn.(*EIdent); ok && id.Name == "ptrof" && len(x.Args) == 2 {
			if s, ok := x.Args[1].(*EStr); ok {
				if t := fr.vc.prog.typeByString(s.Val, pkg); t != nil {
					return t
				}
			}
		}
	case *ESel:
		bt := fr.staticType(x.X, ptypes, pkg)
		if bt == nil {
			return nil
		}
		S := bt
		if p, ok := bt.Underlying().(*types.Pointer); ok {
			S = p.Elem()
		}
		if g := fr.vc.prog.ghostField(structKey(S), x.Name); g != nil {
			// a ghost field declared with a slice type has a Go type: `modifies x.g[:]` then names the element heap of
			// that type at loop heads (any other ghost type stays untyped here)
			var gt types.Type
			func() {
				defer func() { _ = recover() }()
				gt = (&Env{vc: fr.vc, pkg: pkg}).ghostType(g)
			}()
			if gt != nil {
				if _, ok := gt.Underlying().(*types.Slice); ok {
					return gt
				}
			}
			return nil
		}
		var spkg *types.Package
		if n, ok := S.(*types.Named); ok {
			spkg = n.Obj().Pkg()
		}
		obj, _, _ := types.LookupFieldOrMethod(S, true, spkg, x.Name)
		if v, ok := obj.(*types.Var); ok {
			return v.Type()
		}
	}
	return nil
}

func (fr *Frame) staticModKeys(w *writeSet, m Expr, ptypes map[string]types.Type, pkg *types.Package) bool {
	vc := fr.vc
	switch x := m.(type) {
	case *ECall:
		if id, ok := x.Fn.(*EIdent); ok && id.Name == "all" {
			t := fr.staticType(x.Args[0], ptypes, pkg)
			if t == nil {
				return false
			}
			if p, ok := t.Underlying().(*types.Pointer); ok {
				t = p.Elem()
			}
			fr.addStructKeys(w, t)
			return true
		}
	case *ESel:
		if id, ok := x.X.(*EIdent); ok {
			if _, isVar := ptypes[id.Name]; !isVar && (pkg == nil || pkg.Scope().Lookup(id.Name) == nil) {
				if p := vc.prog.pkgByName(id.Name, pkg); p != nil && p.Scope().Lookup(x.Name) == nil {
					if g := vc.prog.ghostGlobalIn(x.Name, p.Name()); g != nil {
						w.keys["G:ghost."+g.Pkg+"."+x.Name] = true
						return true
					}
				}
			}
		}
		if id, ok := x.X.(*EIdent); ok {
			if _, isVar := ptypes[id.Name]; !isVar && pkg != nil {
				if tn, ok := pkg.Scope().Lookup(id.Name).(*types.TypeName); ok {
					w.keys[fieldKey(tn.Type(), x.Name)] = true
					return true
				}
			}
		}
		{
			pv := map[string]Val{}
			for n := range ptypes {
				pv[n] = Val{}
			}
			if tn := fr.qualifiedTypeName(x.X, pv, pkg); tn != nil {
				w.keys[fieldKey(tn.Type(), x.Name)] = true
				return true
			}
		}
		bt := fr.staticType(x.X, ptypes, pkg)
		if bt == nil {
			return false
		}
		S := bt
		if p, ok := bt.Underlying().(*types.Pointer); ok {
			S = p.Elem()
		}
		if g := vc.prog.ghostField(structKey(S), x.Name); g != nil {
			w.keys[fieldKey(S, x.Name)] = true
			return true
		}
		var spkg *types.Package
		if n, ok := S.(*types.Named); ok {
			spkg = n.Obj().Pkg()
		}
		obj, path, _ := types.LookupFieldOrMethod(S, true, spkg, x.Name)
		fv, ok := obj.(*types.Var)
		if !ok {
			return false
		}
		// declaring struct
		cur := S
		for k, idx := range path {
			f := cur.Underlying().(*types.Struct).Field(idx)
			if k == len(path)-1 {
				if isAggregate(fv.Type()) {
					fr.addStructKeys(w, fv.Type())
				} else {
					w.keys[fieldKey(cur, f.Name())] = true
				}
				return true
			}
			cur = f.Type()
			if p, ok := cur.Underlying().(*types.Pointer); ok {
				cur = p.Elem()
			}
		}
	case *ESlice:
		t := fr.staticType(x.X, ptypes, pkg)
		if t == nil {
			return false
		}
		if sl, ok := t.Underlying().(*types.Slice); ok {
			w.keys[elemKey(sl.Elem())] = true
			return true
		}
	case *EIndex:
		t := fr.staticType(x.X, ptypes, pkg)
		if t != nil {
			if sl, ok := t.Underlying().(*types.Slice); ok {
				w.keys[elemKey(sl.Elem())] = true
				return true
			}
		}
	case *EIdent:
		if g := vc.prog.ghostGlobal(x.Name, pkg); g != nil {
			w.keys["G:ghost."+g.Pkg+"."+x.Name] = true
			return true
		}
		if pkg != nil {
			if gv, ok := pkg.Scope().Lookup(x.Name).(*types.Var); ok {
				w.keys["G:"+gv.Pkg().Name()+"."+gv.Name()] = true
				return true
			}
		}
	}
	return false
}

func (fr *Frame) havocAllMark(st *State)              {}
func (fr *Frame) pendingHavoc(st *State, pfx string) {}

// sliceEqExt: same length and same elements (extensional equality of two slices).
func (fr *Frame) sliceEqExt(st *State, a, b Val) string {
	vc := fr.vc
	sl := a.T.Underlying().(*types.Slice)
	i := vc.idxSort()
	ea := vc.readElem(st, sl.Elem(), a.C[0], vc.eidx(a.C[1], "k"))
	eb := vc.readElem(st, sl.Elem(), b.C[0], vc.eidx(b.C[1], "k"))
	var eqs []string
	for ci := range ea.C {
		eqs = append(eqs, "(= "+ea.C[ci]+" "+eb.C[ci]+")")
	}
	return "(and (= " + a.C[2] + " " + b.C[2] + ") (forall ((k " + i + ")) (=> (and " + vc.ile(vc.idx(0), "k") + " " + vc.ilt("k", a.C[2]) + ") " + andAll(eqs...) + ")))"
}

// streamEq: two DataOutputX objects hold the same token stream (same length, kinds and payloads).
func (fr *Frame) streamEq(st *State, a, b Val) string {
	vc := fr.vc
	S := a.T.Underlying().(*types.Pointer).Elem()
	get := func(v Val, name, sort string) string {
		h := vc.hget(st, fieldKey(S, name), "(Array Int "+sort+")")
		return "(select " + h + " " + v.C[0] + ")"
	}
	isrt := vc.idxSort()
	n1, n2 := get(a, "tn", isrt), get(b, "tn", isrt)
	var eqs []string
	for _, f := range []struct{ n, s string }{{"tk", isrt}, {"ti", isrt}, {"ts", "Str"}} {
		arr := "(Array " + isrt + " " + f.s + ")"
		eqs = append(eqs, "(= (select "+get(a, f.n, arr)+" k) (select "+get(b, f.n, arr)+" k))")
	}
	return "(and (= " + n1 + " " + n2 + ") (forall ((k " + isrt + ")) (=> (and " + vc.ile(vc.idx(0), "k") + " " + vc.ilt("k", n1) + ") " + andAll(eqs...) + ")))"
}

// streamEqObligations: same token count, and for every position below a static bound (the number of token writes
// executed so far in this VC) the tokens agree.
func (fr *Frame) streamEqObligations(st *State, a, b Val, pos token.Pos) {
	vc := fr.vc
	top := fr.top()
	S := a.T.Underlying().(*types.Pointer).Elem()
	isrt := vc.idxSort()
	get := func(v Val, name, sort string) string {
		h := vc.hget(st, fieldKey(S, name), "(Array Int "+sort+")")
		return "(select " + h + " " + v.C[0] + ")"
	}
	n1, n2 := get(a, "tn", isrt), get(b, "tn", isrt)
	bound := vc.writeCount[fieldKey(S, "tk")]
	vc.oblige("assert", top.oblFn, fr.oblName("stream-eq-len"), fr.curCond, "(= "+n1+" "+n2+")", fr.pos(pos), "re-encoded stream has the same number of tokens")
	vc.oblige("assert", top.oblFn, fr.oblName("stream-eq-bound"), fr.curCond, "(<= "+n1+" "+fmt.Sprint(bound)+")", fr.pos(pos), "token count within the static bound used for the position-wise comparison")
	// nested streams (a DataOutputX written as a blob into another one): one SMT function, defined once per comparison,
	// says that the streams denoted by two byte arrays agree token by token (one level of nesting; at most 48 tokens)
	nestedFn := ""
	if _, hasS := vc.heapSorts["G:ghost.io.S_n"]; hasS {
		nb := bound
		if nb > 48 {
			nb = 48
		}
		sarr := "(Array " + isrt + " Str)"
		rarr := "(Array " + isrt + " Int)"
		sget := func(name, elemSort, r string) string {
			h := vc.hget(st, "G:ghost.io."+name, "(Array Int "+elemSort+")")
			return "(select " + h + " " + r + ")"
		}
		na, nb2 := sget("S_n", isrt, "ra"), sget("S_n", isrt, "rb")
		nested := []string{"(not (= ra 0))", "(not (= rb 0))", "(= " + na + " " + nb2 + ")", "(<= " + na + " " + fmt.Sprint(nb) + ")"}
		for j := 0; j < nb; j++ {
			js := vc.idx(int64(j))
			var teq []string
			for _, f := range []string{"S_k", "S_i"} {
				arr := "(Array " + isrt + " " + isrt + ")"
				teq = append(teq, "(= (select "+sget(f, arr, "ra")+" "+js+") (select "+sget(f, arr, "rb")+" "+js+"))")
			}
			nsa, nsb := "(select "+sget("S_s", sarr, "ra")+" "+js+")", "(select "+sget("S_s", sarr, "rb")+" "+js+")"
			teq = append(teq, "(= "+nsa+" "+nsb+")") // nested text payloads: identical strings (keeps the function quantifier-free)
			if sf := vc.prog.specFnIn("valeq", "value"); sf != nil {
				ve := vc.declareSpecFn(sf)
				nra, nrb := "(select "+sget("S_r", rarr, "ra")+" "+js+")", "(select "+sget("S_r", rarr, "rb")+" "+js+")"
				nka := "(select " + sget("S_k", "(Array "+isrt+" "+isrt+")", "ra") + " " + js + ")"
				teq = append(teq, "(=> (= "+nka+" "+vc.idx(40)+") (or (= "+nra+" "+nrb+") ("+ve+" "+nra+" "+nrb+")))")
			}
			nested = append(nested, "(=> "+vc.ilt(js, na)+" "+andAll(teq...)+")")
		}
		vc.nfresh++
		nestedFn = fmt.Sprintf("nestedEq!%d", vc.nfresh)
		vc.declare(nestedFn, "(define-fun "+nestedFn+" ((ra Int) (rb Int)) Bool "+andAll(nested...)+")")
	}
	for k := 0; k < bound; k++ {
		ks := vc.idx(int64(k))
		var eqs []string
		for _, f := range []struct{ n, s string }{{"tk", isrt}, {"ti", isrt}} {
			arr := "(Array " + isrt + " " + f.s + ")"
			eqs = append(eqs, "(= (select "+get(a, f.n, arr)+" "+ks+") (select "+get(b, f.n, arr)+" "+ks+"))")
		}
		// composite value tokens (kind 40): the payload objects have equal content (valeq), when that relation is declared
		if sf := vc.prog.specFnIn("valeq", "value"); sf != nil {
			ve := vc.declareSpecFn(sf)
			rarr := "(Array " + isrt + " Int)"
			ra, rb := "(select "+get(a, "tr", rarr)+" "+ks+")", "(select "+get(b, "tr", rarr)+" "+ks+")"
			ka := "(select " + get(a, "tk", "(Array "+isrt+" "+isrt+")") + " " + ks + ")"
			eqs = append(eqs, "(=> (= "+ka+" "+vc.idx(40)+") (or (= "+ra+" "+rb+") ("+ve+" "+ra+" "+rb+")))")
		}
		// string/bytes payloads: same content (extensional), not necessarily the same string object
		sarr := "(Array " + isrt + " Str)"
		sa, sb := "(select "+get(a, "ts", sarr)+" "+ks+")", "(select "+get(b, "ts", sarr)+" "+ks+")"
		payloadEq := "(or (= " + sa + " " + sb + ") " + vc.strEqExt(sa, sb) + ")"
		// a byte payload that is itself a token stream (nested DataOutputX written as a blob): the two nested streams
		// agree token by token (one level of nesting, same static bound)
		if nestedFn != "" {
			rarr := "(Array " + isrt + " Int)"
			ra, rb := "(select "+get(a, "tr", rarr)+" "+ks+")", "(select "+get(b, "tr", rarr)+" "+ks+")"
			kk := "(select " + get(a, "tk", "(Array "+isrt+" "+isrt+")") + " " + ks + ")"
			isBytes := "(or (= " + kk + " " + vc.idx(10) + ") (= " + kk + " " + vc.idx(11) + ") (= " + kk + " " + vc.idx(12) + ") (= " + kk + " " + vc.idx(14) + "))"
			payloadEq = "(or " + payloadEq + " (and " + isBytes + " (" + nestedFn + " " + ra + " " + rb + ")))"
		}
		eqs = append(eqs, payloadEq)
		vc.oblige("assert", top.oblFn, fr.oblName("stream-eq-tok"), fr.curCond, "(=> "+vc.ilt(ks, n1)+" "+andAll(eqs...)+")", fr.pos(pos), fmt.Sprintf("re-encoded stream agrees at token %d", k))
	}
}

// streamEqAllObligations: token streams of two DataOutputX objects are equal, stated with quantifiers over the
// positions (for streams written by loops). The payload compared at a position is the one its kind defines:
// integer payload for kinds 1..9, 20..25 (array length) and >= 50 (record composites: abstract record value), string/bytes content for kinds 10..14, dynamic type and
// content-equivalent object for the composite kinds 40 (value, valeq) and 41 (pack, packeq).
func (fr *Frame) streamEqAllObligations(st *State, a, b Val, pos token.Pos) {
	vc := fr.vc
	top := fr.top()
	S := a.T.Underlying().(*types.Pointer).Elem()
	isrt := vc.idxSort()
	get := func(v Val, name, sort string) string {
		h := vc.hget(st, fieldKey(S, name), "(Array Int "+sort+")")
		return "(select " + h + " " + v.C[0] + ")"
	}
	iarr := "(Array " + isrt + " " + isrt + ")"
	sarr := "(Array " + isrt + " Str)"
	n1, n2 := get(a, "tn", isrt), get(b, "tn", isrt)
	ka, kb := "(select "+get(a, "tk", iarr)+" k)", "(select "+get(b, "tk", iarr)+" k)"
	ia, ib := "(select "+get(a, "ti", iarr)+" k)", "(select "+get(b, "ti", iarr)+" k)"
	sa, sb := "(select "+get(a, "ts", sarr)+" k)", "(select "+get(b, "ts", sarr)+" k)"
	ra, rb := "(select "+get(a, "tr", iarr)+" k)", "(select "+get(b, "tr", iarr)+" k)"
	rng := "(and " + vc.ile(vc.idx(0), "k") + " " + vc.ilt("k", n1) + ")"
	all := func(body string) string { return "(forall ((k " + isrt + ")) (=> " + rng + " " + body + "))" }
	vc.oblige("assert", top.oblFn, fr.oblName("stream-eqall-len"), fr.curCond, "(= "+n1+" "+n2+")", fr.pos(pos), "re-encoded stream has the same number of tokens")
	vc.oblige("assert", top.oblFn, fr.oblName("stream-eqall-kind"), fr.curCond, all("(= "+ka+" "+kb+")"), fr.pos(pos), "re-encoded stream has the same token kind at every position")
	isInt := "(or (and (<= 1 " + ka + ") (<= " + ka + " 9)) (and (<= 20 " + ka + ") (<= " + ka + " 25)) (= " + ka + " 40) (= " + ka + " 41) (<= 50 " + ka + "))"
	vc.oblige("assert", top.oblFn, fr.oblName("stream-eqall-int"), fr.curCond, all("(=> "+isInt+" (= "+ia+" "+ib+"))"), fr.pos(pos), "re-encoded stream has the same integer payload at every position of an integer/array/composite kind")
	isStr := "(and (<= 10 " + ka + ") (<= " + ka + " 14))"
	vc.oblige("assert", top.oblFn, fr.oblName("stream-eqall-str"), fr.curCond, all("(=> "+isStr+" (or (= "+sa+" "+sb+") "+vc.strEqExt(sa, sb)+"))"), fr.pos(pos), "re-encoded stream has the same text/bytes payload at every position of a text/bytes kind")
	var comp []string
	if sf := vc.prog.specFnIn("valeq", "value"); sf != nil {
		comp = append(comp, "(=> (= "+ka+" "+vc.idx(40)+") (or (= "+ra+" "+rb+") ("+vc.declareSpecFn(sf)+" "+ra+" "+rb+")))")
	}
	if sf := vc.prog.specFnIn("packeq", "pack"); sf != nil {
		comp = append(comp, "(=> (= "+ka+" "+vc.idx(41)+") (or (= "+ra+" "+rb+") ("+vc.declareSpecFn(sf)+" "+ra+" "+rb+")))")
	}
	if len(comp) > 0 {
		vc.oblige("assert", top.oblFn, fr.oblName("stream-eqall-obj"), fr.curCond, all(andAll(comp...)), fr.pos(pos), "re-encoded stream has a content-equal object at every position of a composite kind")
	}
}

// sameFieldsObligations: one obligation per field (recursively through embedded structs by value).
func (fr *Frame) sameFieldsObligations(st *State, S types.Type, a, b string, prefix string, pos token.Pos) {
	vc := fr.vc
	top := fr.top()
	for _, f := range structFields(S) {
		name := prefix + f.Name()
		if _, isStruct := f.Type().Underlying().(*types.Struct); isStruct {
			fr.sameFieldsObligations(st, f.Type(), vc.emb(S, f.Name(), a), vc.emb(S, f.Name(), b), name+".", pos)
			continue
		}
		if isAggregate(f.Type()) {
			vc.warn("vsamefields: array field %s not compared", name)
			continue
		}
		va := vc.readKey(st, fieldKey(S, f.Name()), f.Type(), a)
		vb := vc.readKey(st, fieldKey(S, f.Name()), f.Type(), b)
		var goal string
		switch u := f.Type().Underlying().(type) {
		case *types.Slice:
			// same nil-ness, same length, same elements
			goal = "(and (= (= " + va.C[0] + " 0) (= " + vb.C[0] + " 0)) " + fr.sliceEqExt(st, va, vb) + ")"
			_ = u
		case *types.Map, *types.Chan, *types.Signature:
			vc.assumptions["vsamefields: map/chan/func field "+name+" compared for nil-ness only"] = true
			goal = "(= (= " + va.C[0] + " 0) (= " + vb.C[0] + " 0))"
		default:
			var eqs []string
			for i := range va.C {
				eqs = append(eqs, "(= "+va.C[i]+" "+vb.C[i]+")")
			}
			goal = andAll(eqs...)
		}
		vc.oblige("assert", top.oblFn, fr.oblName("same:"+name), fr.curCond, goal, fr.pos(pos), "field "+name+" has the same value in both objects")
	}
}

// ---------- interface method dispatch by case analysis ----------

type implRec struct {
	pt types.Type // the pointer type *T that implements the interface
	fn *ssa.Function
}

// implementations lists the repository types *T whose method set implements iface, with their method `name`.
func (p *Program) implementations(iface types.Type, name string) []implRec {
	ifc, ok := iface.Underlying().(*types.Interface)
	if !ok || ifc.NumMethods() == 0 {
		return nil
	}
	if n, ok := iface.(*types.Named); !ok || n.Obj().Pkg() == nil || !strings.HasPrefix(n.Obj().Pkg().Path(), "github.com/whatap/golib") {
		return nil
	}
	var out []implRec
	var paths []string
	for path := range p.spkgs {
		if strings.HasPrefix(path, "github.com/whatap/golib") {
			paths = append(paths, path)
		}
	}
	sortStrings(paths)
	for _, path := range paths {
		sp := p.spkgs[path]
		var names []string
		for mn := range sp.Members {
			names = append(names, mn)
		}
		sortStrings(names)
		for _, mn := range names {
			tm, ok := sp.Members[mn].(*ssa.Type)
			if !ok {
				continue
			}
			T := tm.Type()
			if _, isI := T.Underlying().(*types.Interface); isI {
				continue
			}
			pt := types.NewPointer(T)
			if !types.Implements(pt, ifc) {
				continue
			}
			sel := p.sprog.MethodSets.MethodSet(pt).Lookup(sp.Pkg, name)
			if sel == nil {
				continue
			}
			fn := p.sprog.MethodValue(sel)
			if fn == nil || fn.Blocks == nil {
				continue
			}
			out = append(out, implRec{pt, fn})
		}
	}
	return out
}

func sortStrings(xs []string) {
	for i := 1; i < len(xs); i++ {
		for j := i; j > 0 && xs[j] < xs[j-1]; j-- {
			xs[j], xs[j-1] = xs[j-1], xs[j]
		}
	}
}

func (fr *Frame) dispatchInvoke(st *State, c *ssa.CallCommon, recv Val, args []Val, key string, sig *types.Signature, pos token.Pos) ([]Val, bool) {
	vc := fr.vc
	impls := vc.prog.implementations(c.Value.Type(), c.Method.Name())
	if len(impls) == 0 || len(impls) > 24 || fr.depth >= curDepthLimit {
		return nil, false
	}
	// dynamic type statically evident (the type component of the receiver is a literal type id, e.g. the value was made
	// from a concrete pointer in this unit, or a contract said `istype(result, "*T")`): an ordinary static call
	if _, err := strconv.Atoi(recv.C[0]); err == nil {
		for _, im := range impls {
			if recv.C[0] == vc.typeID(im.pt) {
				return fr.staticCall(st, im.fn, append([]Val{{T: im.pt, C: []string{recv.C[1]}}}, args...), nil, pos), true
			}
		}
	}
	vc.assumptions["interface call "+key+" dispatched by case analysis over the implementing repository types (pointer receivers)"] = true
	base := st.Clone()
	entryCond := fr.curCond
	var conds []string
	var sts []*State
	var results [][]Val
	var known []string
	allReturn := true
	for _, im := range impls {
		is := vc.define("dyn", "Bool", "(= "+recv.C[0]+" "+vc.typeID(im.pt)+")")
		known = append(known, is)
		s := base.Clone()
		bc := andAll(entryCond, is)
		fr.curCond = bc
		fr.dead = false
		rv := Val{T: im.pt, C: []string{recv.C[1]}}
		res := fr.staticCall(s, im.fn, append([]Val{rv}, args...), nil, pos)
		if fr.dead || fr.curCond == "false" {
			fr.dead = false
			allReturn = false
			continue
		}
		if fr.curCond != bc {
			allReturn = false
		}
		conds = append(conds, fr.curCond)
		sts = append(sts, s)
		results = append(results, res)
	}
	// any other dynamic type: arbitrary results, heap effects not modelled (as for an uncontracted call)
	other := base.Clone()
	var nk []string
	for _, k := range known {
		nk = append(nk, notT(k))
	}
	oc := andAll(append([]string{entryCond}, nk...)...)
	fr.curCond = oc
	fr.dead = false
	ores := fr.havocCall(other, "interface method "+key+" on a type outside the repository", sig, pos, true)
	if fr.curCond != oc {
		allReturn = false
	}
	conds = append(conds, fr.curCond)
	sts = append(sts, other)
	results = append(results, ores)
	merged := vc.mergeStates(conds, sts)
	merged.defers = base.defers
	*st = *merged
	if allReturn {
		// every case returns on every path and the cases are exhaustive: the disjunction is the entry condition itself
		fr.curCond = entryCond
	} else {
		fr.curCond = vc.define("disp_"+c.Method.Name(), "Bool", orAll(conds...))
	}
	fr.dead = false
	var out []Val
	for i, t := range sigResults(sig) {
		cs := vc.flat(t)
		nv := Val{T: t, C: make([]string, len(cs))}
		for ci := range cs {
			terms := make([]string, len(results))
			for k := range results {
				terms[k] = results[k][i].C[ci]
			}
			nv.C[ci] = vc.define("dres"+cs[ci].suf, cs[ci].sort, iteChain(conds, terms))
		}
		out = append(out, nv)
	}
	return out, true
}
