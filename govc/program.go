package main

import (
	"fmt"
	"go/types"
	"os"
	"sort"
	"strings"

	"golang.org/x/tools/go/packages"
	"golang.org/x/tools/go/ssa"
	"golang.org/x/tools/go/ssa/ssautil"
)

type Program struct {
	root   string
	pkgs   []*packages.Package
	all    map[string]*packages.Package // by path, including deps
	sprog  *ssa.Program
	spkgs  map[string]*ssa.Package // by package path
	byName map[string][]*types.Package
	cs     *ContractSet
	funcs  map[string]*ssa.Function // contract key -> function
	specErrors []string
}

func LoadProgram(root string, patterns []string, overlay map[string][]byte) (*Program, error) {
	cfg := &packages.Config{
		Mode:       packages.LoadAllSyntax,
		Dir:        root,
		BuildFlags: []string{"-tags=verif"},
		Overlay:    overlay,
		Env:        append(os.Environ(), "GOFLAGS=-mod=mod", "GOPROXY=off", "GOSUMDB=off", "GOTOOLCHAIN=local"),
	}
	pkgs, err := packages.Load(cfg, patterns...)
	if err != nil {
		return nil, err
	}
	var errs []string
	packages.Visit(pkgs, nil, func(p *packages.Package) {
		for _, e := range p.Errors {
			if strings.HasPrefix(p.PkgPath, "github.com/whatap/golib") {
				errs = append(errs, e.Error())
			}
		}
	})
	if len(errs) > 0 {
		return nil, fmt.Errorf("package errors:\n%s", strings.Join(errs, "\n"))
	}
	sprog, spkgs := ssautil.AllPackages(pkgs, ssa.NaiveForm|ssa.InstantiateGenerics)
	sprog.Build()
	p := &Program{root: root, pkgs: pkgs, sprog: sprog, spkgs: map[string]*ssa.Package{}, byName: map[string][]*types.Package{}, all: map[string]*packages.Package{}, funcs: map[string]*ssa.Function{}}
	for _, sp := range spkgs {
		if sp != nil {
			p.spkgs[sp.Pkg.Path()] = sp
		}
	}
	packages.Visit(pkgs, nil, func(pk *packages.Package) {
		p.all[pk.PkgPath] = pk
		if pk.Types != nil {
			p.byName[pk.Types.Name()] = append(p.byName[pk.Types.Name()], pk.Types)
		}
	})
	for _, sp := range sprog.AllPackages() {
		if _, ok := p.spkgs[sp.Pkg.Path()]; !ok {
			p.spkgs[sp.Pkg.Path()] = sp
		}
	}
	cs, err := LoadContracts(root)
	if err != nil {
		return nil, err
	}
	p.cs = cs
	return p, nil
}

// pkgByName resolves a package name as seen from package `from` (its imports first, then any loaded package).
func (p *Program) pkgByName(name string, from *types.Package) *types.Package {
	if from != nil {
		if from.Name() == name {
			return from
		}
		for _, imp := range from.Imports() {
			if imp.Name() == name {
				return imp
			}
		}
	}
	c := p.byName[name]
	if len(c) == 0 {
		return nil
	}
	// prefer repository packages
	for _, x := range c {
		if strings.HasPrefix(x.Path(), "github.com/whatap/golib") {
			return x
		}
	}
	return c[0]
}

func (p *Program) typesPkgByName(name string) *types.Package { return p.pkgByName(name, nil) }

func (p *Program) ghostField(skey, name string) *GhostField {
	for _, g := range p.cs.Ghosts {
		if g.Struct == skey && g.Name == name {
			return g
		}
	}
	return nil
}

func (p *Program) ghostFieldsOf(skey string) []*GhostField {
	var out []*GhostField
	for _, g := range p.cs.Ghosts {
		if g.Struct == skey {
			out = append(out, g)
		}
	}
	return out
}

func (p *Program) ghostGlobal(name string, from *types.Package) *GhostField {
	for _, g := range p.cs.Ghosts {
		if g.Struct == "" && g.Name == name && (from == nil || g.Pkg == from.Name()) {
			return g
		}
	}
	return nil
}

func (p *Program) ghostGlobalIn(name, pkg string) *GhostField {
	for _, g := range p.cs.Ghosts {
		if g.Struct == "" && g.Name == name && g.Pkg == pkg {
			return g
		}
	}
	return nil
}

func (p *Program) specFn(name string, from *types.Package) *SpecFn {
	if from != nil {
		if sf, ok := p.cs.SpecFns[from.Name()+"."+name]; ok {
			return sf
		}
	}
	return nil
}

func (p *Program) specFnIn(name, pkg string) *SpecFn {
	return p.cs.SpecFns[pkg+"."+name]
}

// typeByString resolves "*pkg.T", "pkg.T", "T", "int32", "string" ...
func (p *Program) typeByString(s string, from *types.Package) types.Type {
	s = strings.TrimSpace(s)
	if strings.HasPrefix(s, "*") {
		t := p.typeByString(s[1:], from)
		if t == nil {
			return nil
		}
		return types.NewPointer(t)
	}
	if strings.HasPrefix(s, "[]") {
		t := p.typeByString(s[2:], from)
		if t == nil {
			return nil
		}
		return types.NewSlice(t)
	}
	if o := types.Universe.Lookup(s); o != nil {
		if tn, ok := o.(*types.TypeName); ok {
			return tn.Type()
		}
	}
	if k := strings.LastIndex(s, "."); k >= 0 {
		pk := p.pkgByName(s[:k], from)
		if pk == nil {
			return nil
		}
		if o := pk.Scope().Lookup(s[k+1:]); o != nil {
			return o.Type()
		}
		// two packages of that name may be in scope (std "net" and the repository's net): the one that declares the type
		var cands []*types.Package
		if from != nil {
			cands = append(cands, from.Imports()...)
		}
		cands = append(cands, p.byName[s[:k]]...)
		for _, c := range cands {
			if c.Name() == s[:k] {
				if o, ok := c.Scope().Lookup(s[k+1:]).(*types.TypeName); ok {
					return o.Type()
				}
			}
		}
		return nil
	}
	if from != nil {
		if o := from.Scope().Lookup(s); o != nil {
			return o.Type()
		}
	}
	return nil
}

// funcKey: contract key of an SSA function: pkgname.Recv.Name or pkgname.Name
func funcKey(f *ssa.Function) string {
	if f == nil {
		return "?"
	}
	pk := "?"
	if f.Pkg != nil {
		pk = f.Pkg.Pkg.Name()
	} else if o := f.Object(); o != nil && o.Pkg() != nil {
		pk = o.Pkg().Name()
	}
	if f.Signature.Recv() != nil {
		rt := f.Signature.Recv().Type()
		if pt, ok := rt.(*types.Pointer); ok {
			rt = pt.Elem()
		}
		rn := shortTypeKey(rt)
		if n, ok := rt.(*types.Named); ok {
			rn = n.Obj().Name()
			if n.Obj().Pkg() != nil {
				pk = n.Obj().Pkg().Name()
			}
		}
		return pk + "." + rn + "." + f.Name()
	}
	if f.Parent() != nil {
		return funcKey(f.Parent()) + "$" + strings.TrimPrefix(f.Name(), f.Parent().Name()+"$")
	}
	return pk + "." + f.Name()
}

// ifaceMethodKey: key for a contract on an interface method: pkg.Iface.Method
func ifaceMethodKey(recv types.Type, name string) string {
	if n, ok := recv.(*types.Named); ok && n.Obj().Pkg() != nil {
		return n.Obj().Pkg().Name() + "." + n.Obj().Name() + "." + name
	}
	return shortTypeKey(recv) + "." + name
}

func (p *Program) contractFor(f *ssa.Function) *FuncContract {
	return p.cs.Funcs[funcKey(f)]
}

// findFunc locates the SSA function for a contract key.
func (p *Program) findFunc(key string) *ssa.Function {
	if f, ok := p.funcs[key]; ok {
		return f
	}
	// a second, independent unit for the same function: `func T.M#variant` (e.g. a byte-level allocation-budget contract
	// next to the token-level functional contract). Callers never see it: they look the callee up by its plain key.
	if k := strings.LastIndex(key, "#"); k >= 0 {
		f := p.findFunc(key[:k])
		p.funcs[key] = f
		return f
	}
	// anonymous function (closure) of a repository function: <parent key>$N  (go/ssa naming: Parent$N)
	if k := strings.LastIndex(key, "$"); k >= 0 {
		var found *ssa.Function
		if parent := p.findFunc(key[:k]); parent != nil {
			for _, af := range parent.AnonFuncs {
				if af.Name() == parent.Name()+"$"+key[k+1:] {
					found = af
				}
			}
		}
		p.funcs[key] = found
		return found
	}
	parts := strings.Split(key, ".")
	var found *ssa.Function
	for _, sp := range p.spkgs {
		if sp.Pkg.Name() != parts[0] {
			continue
		}
		if len(parts) == 2 {
			if f := sp.Func(parts[1]); f != nil {
				found = f
			}
		} else if len(parts) == 3 {
			if tn, ok := sp.Pkg.Scope().Lookup(parts[1]).(*types.TypeName); ok {
				for _, t := range []types.Type{tn.Type(), types.NewPointer(tn.Type())} {
					ms := p.sprog.MethodSets.MethodSet(t)
					for i := 0; i < ms.Len(); i++ {
						if ms.At(i).Obj().Name() == parts[2] {
							f := p.sprog.MethodValue(ms.At(i))
							if f != nil && f.Synthetic == "" {
								found = f
							} else if f != nil && found == nil {
								// promoted through embedding: wrapper; skip
							}
						}
					}
				}
			}
		}
		if found != nil && strings.HasPrefix(sp.Pkg.Path(), "github.com/whatap/golib") {
			break
		}
	}
	p.funcs[key] = found
	return found
}

func (p *Program) contractKeysSorted() []string {
	var ks []string
	for k := range p.cs.Funcs {
		ks = append(ks, k)
	}
	sort.Strings(ks)
	return ks
}
