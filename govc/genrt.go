package main

// `govc genrt -pkgs ./lang/pack/udp -prop C07 -out file`: derives round-trip proof harnesses for every type with a
// Write(*io.DataOutputX)/Read(*io.DataInputX) pair. The carried fields and the conditions under which they are carried
// are transliterated mechanically from the AST of Write (the "layout"); the result is reviewed and FROZEN in the
// repository (zz_rt_verif.go) — it is not regenerated at check time, so a field dropped on both sides still fails.

import (
	"bytes"
	"encoding/json"
	"flag"
	"fmt"
	"go/ast"
	"go/printer"
	"go/token"
	"go/types"
	"os"
	"sort"
	"strings"

	"golang.org/x/tools/go/packages"
)

type carried struct {
	field string   // selector path relative to the struct: "Txid" or "AbstractPack.Txid"
	guard string   // Go condition over p (may be "")
	kind  string   // scalar | string | bytes | slice | value | skip
	typ   types.Type
	viaArray bool // written with Write<T>Array: the count is a 16-bit field
}

func cmdGenRT(args []string) {
	fs := flag.NewFlagSet("genrt", flag.ExitOnError)
	pkgs := fs.String("pkgs", "./lang/pack/udp", "package pattern (one package)")
	root := fs.String("root", repoRoot, "repository root")
	prop := fs.String("prop", "C07", "property tag(s)")
	outp := fs.String("out", "", "output file (default stdout)")
	only := fs.String("types", "", "comma-separated type names (default: all)")
	fs.Parse(args)
	prog, err := LoadProgram(*root, strings.Split(*pkgs, ","), nil)
	if err != nil {
		fmt.Fprintln(os.Stderr, err)
		os.Exit(2)
	}
	pk := prog.pkgs[0]
	var buf bytes.Buffer
	onlySet := map[string]bool{}
	for _, t := range strings.Split(*only, ",") {
		if t != "" {
			onlySet[t] = true
		}
	}
	g := &rtGen{prog: prog, pk: pk, fset: pk.Fset, over: map[string]rtOverride{}}
	if ob, err := os.ReadFile("/verif/tools/rt_overrides.json"); err == nil {
		json.Unmarshal(ob, &g.over)
	}
	g.index()
	var names []string
	for n := range g.writes {
		if _, ok := g.reads[n]; ok {
			if len(onlySet) == 0 || onlySet[n] {
				names = append(names, n)
			}
		}
	}
	sort.Strings(names)
	ioName := "io"
	fmt.Fprintf(&buf, "//go:build verif\n\n// Round-trip proof harnesses, derived mechanically from the Write methods by `govc genrt` and then frozen.\n// For every type: decode(encode(p)) consumes the stream exactly, re-encodes to the same stream, and every carried\n// field (under the condition under which Write emits it) is equal.\n\npackage %s\n\nimport (\n\t\"bytes\"\n\t\"math\"\n\n\t\"github.com/whatap/golib/io\"\n)\n\n", pk.Types.Name())
	if pk.Types.Name() == "io" {
		ioName = ""
	}
	_ = ioName
	fmt.Fprintf(&buf, "var _ = bytes.Equal\nvar _ = math.Float64bits\n\n")
	if !g.hasFunc("vassert") {
		fmt.Fprintf(&buf, "func vassert(b bool) {\n\tif !b {\n\t\tpanic(\"vassert failed\")\n\t}\n}\n\n")
	}
	fmt.Fprintf(&buf, "// vstreameq: the two outputs hold the same stream (executable: same bytes; verifier: same tokens)\nfunc vstreameq(a, b *io.DataOutputX) bool { return bytes.Equal(a.ToByteArray(), b.ToByteArray()) }\n\n")
	var body bytes.Buffer
	g.sliceTypes = map[string]bool{}
	for _, n := range names {
		g.harness(&body, n, *prop)
	}
	var sts []string
	for t := range g.sliceTypes {
		sts = append(sts, t)
	}
	sort.Strings(sts)
	for _, t := range sts {
		if t == "float32" || t == "float64" {
			bf := map[string]string{"float32": "Float32bits", "float64": "Float64bits"}[t]
			fmt.Fprintf(&buf, "// bit-identical elements (NaN payloads included)\nfunc vsliceeq_%s(a, b []%s) bool {\n\tif len(a) != len(b) {\n\t\treturn false\n\t}\n\tfor i := range a {\n\t\tif math.%s(a[i]) != math.%s(b[i]) {\n\t\t\treturn false\n\t\t}\n\t}\n\treturn true\n}\n\n", t, t, bf, bf)
			continue
		}
		fmt.Fprintf(&buf, "func vsliceeq_%s(a, b []%s) bool {\n\tif len(a) != len(b) {\n\t\treturn false\n\t}\n\tfor i := range a {\n\t\tif a[i] != b[i] {\n\t\t\treturn false\n\t\t}\n\t}\n\treturn true\n}\n\n", t, t)
	}
	if g.needValue {
		vq := "value."
		imp := "\t\"github.com/whatap/golib/lang/value\"\n"
		if pk.Types.Name() == "value" {
			vq, imp = "", ""
		}
		hdr := buf.String()
		hdr = strings.Replace(hdr, "\t\"github.com/whatap/golib/io\"\n", "\t\"github.com/whatap/golib/io\"\n"+imp, 1)
		buf.Reset()
		buf.WriteString(hdr)
		fmt.Fprintf(&buf, "// vvalueeq: both nil, or same type and equal content (executable: same encoding; verifier: valeq)\nfunc vvalueeq(a, b %sValue) bool {\n\tif a == nil || b == nil {\n\t\treturn a == nil && b == nil\n\t}\n\treturn bytes.Equal(vvalbytes(a), vvalbytes(b))\n}\n\nfunc vvalueeq_MapValue(a, b *%sMapValue) bool {\n\tif a == nil || b == nil {\n\t\treturn a == nil && b == nil\n\t}\n\treturn bytes.Equal(vvalbytes(a), vvalbytes(b))\n}\n\nfunc vvalbytes(v %sValue) []byte {\n\to := io.NewDataOutputX()\n\t%sWriteValue(o, v)\n\treturn o.ToByteArray()\n}\n\n", vq, vq, vq, vq)
	}
	buf.Write(body.Bytes())
	names = nil
	for _, n := range names {
		g.harness(&buf, n, *prop)
	}
	if *outp == "" {
		os.Stdout.Write(buf.Bytes())
	} else {
		os.WriteFile(*outp, buf.Bytes(), 0o644)
	}
}

type rtOverride struct {
	Requires []string `json:"requires"`
	Context  []string `json:"context"`
	Skip     string   `json:"skip"`
}

type rtGen struct {
	over   map[string]rtOverride
	prog   *Program
	pk     *packages.Package
	fset   *token.FileSet
	writes map[string]*ast.FuncDecl
	reads  map[string]*ast.FuncDecl
	funcs  map[string]*ast.FuncDecl
	ctors  map[string]*ast.FuncDecl
	sliceTypes map[string]bool
	needValue bool
}

func (g *rtGen) hasFunc(name string) bool { _, ok := g.funcs[name]; return ok }

func recvTypeName(fd *ast.FuncDecl) string {
	if fd.Recv == nil || len(fd.Recv.List) == 0 {
		return ""
	}
	t := fd.Recv.List[0].Type
	if s, ok := t.(*ast.StarExpr); ok {
		t = s.X
	}
	if id, ok := t.(*ast.Ident); ok {
		return id.Name
	}
	return ""
}

func (g *rtGen) index() {
	g.writes, g.reads, g.funcs, g.ctors = map[string]*ast.FuncDecl{}, map[string]*ast.FuncDecl{}, map[string]*ast.FuncDecl{}, map[string]*ast.FuncDecl{}
	for _, f := range g.pk.Syntax {
		fn := g.fset.Position(f.Pos()).Filename
		if strings.HasSuffix(fn, "zz_rt_verif.go") {
			continue // the file being regenerated
		}
		if strings.HasSuffix(fn, "_verif.go") || strings.HasSuffix(fn, "_test.go") {
			// helper declarations in verif files still count as "existing functions"
			for _, d := range f.Decls {
				if fd, ok := d.(*ast.FuncDecl); ok && fd.Recv == nil {
					g.funcs[fd.Name.Name] = fd
				}
			}
			continue
		}
		for _, d := range f.Decls {
			fd, ok := d.(*ast.FuncDecl)
			if !ok || fd.Body == nil {
				continue
			}
			rt := recvTypeName(fd)
			if rt == "" {
				g.funcs[fd.Name.Name] = fd
				continue
			}
			if fd.Name.Name == "Write" && len(fd.Type.Params.List) == 1 && g.paramIs(fd, "DataOutputX") {
				g.writes[rt] = fd
			}
			if fd.Name.Name == "Read" && len(fd.Type.Params.List) == 1 && g.paramIs(fd, "DataInputX") {
				g.reads[rt] = fd
			}
		}
	}
}

func (g *rtGen) paramIs(fd *ast.FuncDecl, tn string) bool {
	var b bytes.Buffer
	printer.Fprint(&b, g.fset, fd.Type.Params.List[0].Type)
	return strings.HasSuffix(b.String(), tn)
}

func (g *rtGen) src(e ast.Node) string {
	var b bytes.Buffer
	printer.Fprint(&b, g.fset, e)
	return b.String()
}

func recvName(fd *ast.FuncDecl) string {
	if len(fd.Recv.List[0].Names) > 0 {
		return fd.Recv.List[0].Names[0].Name
	}
	return "_"
}

// rewrite replaces the receiver identifier by `to` in an expression's source.
func (g *rtGen) rewrite(e ast.Expr, recv, to string) string {
	var b bytes.Buffer
	printer.Fprint(&b, g.fset, e)
	s := b.String()
	// token-wise replacement of the receiver name followed by '.'
	out := ""
	for i := 0; i < len(s); {
		if strings.HasPrefix(s[i:], recv+".") && (i == 0 || !isIdentChar(s[i-1])) {
			out += to + "."
			i += len(recv) + 1
			continue
		}
		out += string(s[i])
		i++
	}
	return out
}

func isIdentChar(c byte) bool {
	return c == '_' || c >= 'a' && c <= 'z' || c >= 'A' && c <= 'Z' || c >= '0' && c <= '9'
}

// fieldOfArg: if the expression is recv.F (possibly through conversions / embedded selectors) return the selector path.
func (g *rtGen) fieldOfArg(e ast.Expr, recv string) (string, bool) {
	switch x := e.(type) {
	case *ast.ParenExpr:
		return g.fieldOfArg(x.X, recv)
	case *ast.CallExpr:
		// conversion T(recv.F), or a one-argument formatting helper f(recv.F) (numeric-as-text fields)
		if len(x.Args) == 1 {
			if tv, ok := g.pk.TypesInfo.Types[x.Fun]; ok && tv.IsType() {
				return g.fieldOfArg(x.Args[0], recv)
			}
			if _, isSel := x.Fun.(*ast.SelectorExpr); isSel {
				if id, ok := x.Fun.(*ast.SelectorExpr).X.(*ast.Ident); ok {
					if _, isPkg := g.pk.TypesInfo.Uses[id].(*types.PkgName); isPkg {
						return g.fieldOfArg(x.Args[0], recv)
					}
				}
			}
		}
	case *ast.SelectorExpr:
		var path []string
		var cur ast.Expr = x
		for {
			s, ok := cur.(*ast.SelectorExpr)
			if !ok {
				break
			}
			path = append([]string{s.Sel.Name}, path...)
			cur = s.X
		}
		if id, ok := cur.(*ast.Ident); ok && id.Name == recv {
			// must denote a field
			if sel, ok := g.pk.TypesInfo.Selections[x]; ok && sel.Kind() == types.FieldVal {
				return strings.Join(path, "."), true
			}
		}
	}
	return "", false
}

// onlyRecvFields: does the condition mention only the receiver's fields, constants and literals?
func (g *rtGen) pureCond(e ast.Expr, recv string) bool {
	ok := true
	ast.Inspect(e, func(n ast.Node) bool {
		switch x := n.(type) {
		case *ast.CallExpr:
			// allow len(recv.F) and conversions
			if id, isID := x.Fun.(*ast.Ident); isID && (id.Name == "len") {
				return true
			}
			if tv, has := g.pk.TypesInfo.Types[x.Fun]; has && tv.IsType() {
				return true
			}
			// a method of the receiver applied to literals (e.g. this.IsTrue(4)) is a function of the receiver's fields
			if sel, isSel := x.Fun.(*ast.SelectorExpr); isSel {
				if id, isID := sel.X.(*ast.Ident); isID && id.Name == recv {
					lits := true
					for _, a := range x.Args {
						if _, isLit := a.(*ast.BasicLit); !isLit {
							lits = false
						}
					}
					if lits {
						return true
					}
				}
			}
			ok = false
			return false
		case *ast.Ident:
			if x.Name == recv || x.Name == "nil" || x.Name == "true" || x.Name == "false" || x.Name == "len" {
				return true
			}
			if obj := g.pk.TypesInfo.Uses[x]; obj != nil {
				switch obj.(type) {
				case *types.Const, *types.TypeName, *types.PkgName:
					return true
				case *types.Var:
					if obj.(*types.Var).IsField() {
						return true
					}
				}
			}
			ok = false
			return false
		}
		return true
	})
	return ok
}

func (g *rtGen) collect(fd *ast.FuncDecl, prefix string, guard []string, depth int) []carried {
	recv := recvName(fd)
	var out []carried
	var walk func(stmts []ast.Stmt, guard []string)
	walk = func(stmts []ast.Stmt, guard []string) {
		for _, st := range stmts {
			switch s := st.(type) {
			case *ast.ExprStmt:
				call, ok := s.X.(*ast.CallExpr)
				if !ok {
					continue
				}
				sel, ok := call.Fun.(*ast.SelectorExpr)
				if !ok {
					continue
				}
				// embedded Write: recv.Embedded.Write(out)
				if sel.Sel.Name == "Write" && len(call.Args) == 1 {
					if path, ok := g.fieldOfArg(sel.X, recv); ok && depth < 3 {
						if tv, ok := g.pk.TypesInfo.Types[sel.X]; ok {
							tn := tv.Type
							if p, ok := tn.(*types.Pointer); ok {
								tn = p.Elem()
							}
							if n, ok := tn.(*types.Named); ok {
								if efd, ok := g.writes[n.Obj().Name()]; ok {
									out = append(out, g.collect(efd, prefix+path+".", guard, depth+1)...)
								}
							}
						}
					}
					continue
				}
				if !strings.HasPrefix(sel.Sel.Name, "Write") {
					continue
				}
				argIdx := 0
				if len(call.Args) == 2 {
					// function form pkg.WriteValue(out, recv.F)
					if _, isPkg := sel.X.(*ast.Ident); !isPkg {
						continue
					}
					if id := sel.X.(*ast.Ident); id != nil {
						if _, ok := g.pk.TypesInfo.Uses[id].(*types.PkgName); !ok {
							continue
						}
					}
					argIdx = 1
				} else if len(call.Args) != 1 {
					continue
				}
				path, ok := g.fieldOfArg(call.Args[argIdx], recv)
				if !ok {
					continue
				}
				tv := g.pk.TypesInfo.Types[call.Args[argIdx]]
				ft := g.fieldType(fd, path)
				_ = tv
				c := carried{field: prefix + path, guard: strings.Join(guard, " && "), typ: ft}
				c.kind = g.kindOf(ft)
				c.viaArray = strings.HasSuffix(sel.Sel.Name, "Array")
				// a narrowing conversion between the field and the wire makes plain equality too strong: skip those
				if ce, isConv := call.Args[argIdx].(*ast.CallExpr); isConv && c.kind == "scalar" {
					if at, ok := g.pk.TypesInfo.Types[ce]; ok && ft != nil {
						ai, ok1 := numOf(at.Type)
						fi, ok2 := numOf(ft)
						if ok1 && ok2 && (ai.bits < fi.bits || ai.signed != fi.signed) {
							c.kind = "narrow:" + types.TypeString(at.Type, func(*types.Package) string { return "" })
						}
					}
				}
				out = append(out, c)
			case *ast.IfStmt:
				if s.Init != nil || !g.pureCond(s.Cond, recv) {
					continue
				}
				cond := "(" + g.rewrite(s.Cond, recv, "p"+prefixSel(prefix)) + ")"
				walk(s.Body.List, append(append([]string{}, guard...), cond))
				neg := "!" + cond
				switch e := s.Else.(type) {
				case *ast.BlockStmt:
					walk(e.List, append(append([]string{}, guard...), neg))
				case *ast.IfStmt:
					walk([]ast.Stmt{e}, append(append([]string{}, guard...), neg))
				}
			case *ast.BlockStmt:
				walk(s.List, guard)
			}
		}
	}
	walk(fd.Body.List, guard)
	return out
}

func prefixSel(prefix string) string {
	if prefix == "" {
		return ""
	}
	return "." + strings.TrimSuffix(prefix, ".")
}

func (g *rtGen) fieldType(fd *ast.FuncDecl, path string) types.Type {
	rt := recvTypeName(fd)
	obj := g.pk.Types.Scope().Lookup(rt)
	if obj == nil {
		return nil
	}
	t := obj.Type()
	for _, part := range strings.Split(path, ".") {
		o, _, _ := types.LookupFieldOrMethod(t, true, g.pk.Types, part)
		v, ok := o.(*types.Var)
		if !ok {
			return nil
		}
		t = v.Type()
	}
	return t
}

func (g *rtGen) kindOf(t types.Type) string {
	if t == nil {
		return "skip"
	}
	if ts := t.String(); ts == "github.com/whatap/golib/lang/value.Value" {
		return "value"
	} else if ts == "*github.com/whatap/golib/lang/value.MapValue" {
		return "mapvalue"
	}
	switch u := t.Underlying().(type) {
	case *types.Basic:
		if u.Info()&types.IsString != 0 {
			return "string"
		}
		if u.Info()&types.IsFloat != 0 {
			return "float"
		}
		return "scalar"
	case *types.Slice:
		if _, ok := u.Elem().Underlying().(*types.Basic); ok {
			return "slice" // float elements are compared by bit pattern (vsliceeq_float32 / vsliceeq_float64)
		}
	}
	return "skip"
}

// contextFields: fields that Read consults in conditions but never assigns: they must be set on q before Read.
func (g *rtGen) contextFields(tn string, seen map[string]bool) []string {
	fd := g.reads[tn]
	if fd == nil || seen[tn] {
		return nil
	}
	seen[tn] = true
	recv := recvName(fd)
	assigned := map[string]bool{}
	used := map[string]bool{}
	var embedded []string
	ast.Inspect(fd.Body, func(n ast.Node) bool {
		switch x := n.(type) {
		case *ast.AssignStmt:
			for _, l := range x.Lhs {
				if p, ok := g.fieldOfArg(l, recv); ok {
					assigned[p] = true
				}
			}
		case *ast.IfStmt:
			ast.Inspect(x.Cond, func(m ast.Node) bool {
				if e, ok := m.(ast.Expr); ok {
					if p, ok := g.fieldOfArg(e, recv); ok {
						used[p] = true
						return false
					}
				}
				return true
			})
		case *ast.CallExpr:
			if sel, ok := x.Fun.(*ast.SelectorExpr); ok && sel.Sel.Name == "Read" {
				if p, ok := g.fieldOfArg(sel.X, recv); ok {
					embedded = append(embedded, p)
				}
			}
		}
		return true
	})
	var out []string
	for f := range used {
		if !assigned[f] {
			out = append(out, f)
		}
	}
	// embedded readers
	for _, e := range embedded {
		et := g.fieldType(fd, e)
		if et == nil {
			continue
		}
		if p, ok := et.(*types.Pointer); ok {
			et = p.Elem()
		}
		if n, ok := et.(*types.Named); ok {
			for _, f := range g.contextFields(n.Obj().Name(), seen) {
				out = append(out, e+"."+f)
			}
		}
	}
	sort.Strings(out)
	return dedup(out)
}

func (g *rtGen) harness(w *bytes.Buffer, tn string, prop string) {
	wfd := g.writes[tn]
	ov := g.over[g.pk.Types.Name()+"."+tn]
	if ov.Skip != "" {
		fmt.Fprintf(w, "// %s: no round-trip harness — %s\n\n", tn, ov.Skip)
		return
	}
	cs := g.collect(wfd, "", nil, 0)
	ctx := g.contextFields(tn, map[string]bool{})
	ctx = dedup(append(ctx, ov.Context...))
	fmt.Fprintf(w, "//@ lemmafn verif_rt_%s\n//@   prop %s\n//@   arith int\n//@   view tok\n//@   requires p != nil\n", tn, prop)
	for _, r := range ov.Requires {
		fmt.Fprintf(w, "//@   requires %s\n", r)
	}
	seenReq := map[string]bool{}
	for _, c := range cs {
		if c.viaArray && !seenReq[c.field] {
			seenReq[c.field] = true
			fmt.Fprintf(w, "//@   requires len(p.%s) <= 32767 -- the typed-array count is a signed 16-bit field\n", c.field)
		}
	}
	fmt.Fprintf(w, "\n")
	fmt.Fprintf(w, "func verif_rt_%s(p *%s) {\n", tn, tn)
	fmt.Fprintf(w, "\tout := io.NewDataOutputX()\n\tp.Write(out)\n\tin := io.NewDataInputX(out.ToByteArray())\n\tq := new(%s)\n", tn)
	for _, c := range ctx {
		// promoted fields are addressed by their last component when unambiguous
		fmt.Fprintf(w, "\tq.%s = p.%s\n", c, c)
	}
	fmt.Fprintf(w, "\tq.Read(in)\n\tvassert(in.Available() == 0) // the decoder consumed exactly what the encoder produced\n")
	fmt.Fprintf(w, "\tout2 := io.NewDataOutputX()\n\tq.Write(out2)\n\tvassert(vstreameq(out, out2)) // re-encoding the decoded object yields the same stream\n")
	seen := map[string]bool{}
	for _, c := range cs {
		var a string
		switch {
		case c.kind == "scalar" || c.kind == "string" || c.kind == "float":
			a = fmt.Sprintf("vassert(q.%s == p.%s)", c.field, c.field)
			if c.kind == "float" {
				fn := "Float64bits"
				if ni, ok := numOf(c.typ); ok && ni.bits == 32 {
					fn = "Float32bits"
				}
				a = fmt.Sprintf("vassert(math.%s(q.%s) == math.%s(p.%s)) // bit-identical (NaN payloads included)", fn, c.field, fn, c.field)
			}
		case strings.HasPrefix(c.kind, "narrow:"):
			t := strings.TrimPrefix(c.kind, "narrow:")
			a = fmt.Sprintf("vassert(%s(q.%s) == %s(p.%s)) // carried with the width of the wire field", t, c.field, t, c.field)
		case c.kind == "value":
			g.needValue = true
			a = fmt.Sprintf("vassert(vvalueeq(q.%s, p.%s))", c.field, c.field)
		case c.kind == "mapvalue":
			g.needValue = true
			a = fmt.Sprintf("vassert(vvalueeq_MapValue(q.%s, p.%s))", c.field, c.field)
		case c.kind == "slice":
			et := types.TypeString(c.typ.Underlying().(*types.Slice).Elem(), func(*types.Package) string { return "" })
			g.sliceTypes[et] = true
			a = fmt.Sprintf("vassert(vsliceeq_%s(q.%s, p.%s))", et, c.field, c.field)
		default:
			continue
		}
		key := c.guard + "|" + a
		if seen[key] {
			continue
		}
		seen[key] = true
		if c.guard != "" {
			fmt.Fprintf(w, "\tif %s {\n\t\t%s\n\t}\n", c.guard, a)
		} else {
			fmt.Fprintf(w, "\t%s\n", a)
		}
	}
	fmt.Fprintf(w, "}\n\n")
}
