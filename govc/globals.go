package main

// Initial contents of package-level variables with constant composite-literal initialisers
// (lookup tables), provided no function other than the package initialiser stores into them.

import (
	"fmt"
	"go/ast"
	"go/constant"
	"go/types"
	"strings"

	"golang.org/x/tools/go/ssa"
)

func (vc *VC) globalInitFacts(v *types.Var) {
	key := v.Pkg().Path() + "." + v.Name()
	if vc.globalsDone[key] {
		return
	}
	vc.globalsDone[key] = true
	prog := vc.prog
	pk := prog.all[v.Pkg().Path()]
	if pk == nil || pk.TypesInfo == nil {
		return
	}
	if prog.globalWritten(v) {
		vc.warn("global %s is written outside its initialiser: contents not assumed", key)
		return
	}
	// find the initialiser expression
	var init ast.Expr
	for _, f := range pk.Syntax {
		for _, d := range f.Decls {
			gd, ok := d.(*ast.GenDecl)
			if !ok {
				continue
			}
			for _, sp := range gd.Specs {
				vs, ok := sp.(*ast.ValueSpec)
				if !ok {
					continue
				}
				for i, n := range vs.Names {
					if pk.TypesInfo.Defs[n] == v && i < len(vs.Values) {
						init = vs.Values[i]
					}
				}
			}
		}
	}
	if init == nil {
		return
	}
	st := NewState()
	switch u := v.Type().Underlying().(type) {
	case *types.Array:
		cl, ok := init.(*ast.CompositeLit)
		if !ok {
			return
		}
		addr := vc.globalAddr(v)
		vc.compositeFacts(pk.TypesInfo, cl, u.Elem(), addr, "", st)
	case *types.Slice:
		cl, ok := init.(*ast.CompositeLit)
		if !ok {
			return
		}
		// the slice header is a global; its backing array is a distinct constant reference
		arr := "|garr_" + v.Pkg().Name() + "." + v.Name() + "|"
		vc.declare(arr, "(declare-const "+arr+" Int)")
		vc.axiom("(< " + arr + " 0)")
		n := vc.compositeFacts(pk.TypesInfo, cl, u.Elem(), arr, "", st)
		gk := "G:" + v.Pkg().Name() + "." + v.Name()
		hv := vc.readGlobal(st, gk, v.Type())
		vc.axiom(fmt.Sprintf("(and (= %s %s) (= %s %s) (= %s %s) (= %s %s))", hv.C[0], arr, hv.C[1], vc.idx(0), hv.C[2], vc.idx(int64(n)), hv.C[3], vc.idx(int64(n))))
	case *types.Pointer:
		// `var G = new(T)` / `var G = &T{...}`: the variable holds a non-nil pointer
		isAlloc := false
		switch x := ast.Unparen(init).(type) {
		case *ast.CallExpr:
			if id, ok := x.Fun.(*ast.Ident); ok && id.Name == "new" {
				_, isAlloc = pk.TypesInfo.Uses[id].(*types.Builtin)
			}
		case *ast.UnaryExpr:
			_, isAlloc = ast.Unparen(x.X).(*ast.CompositeLit)
		}
		if !isAlloc {
			return
		}
		hv := vc.readGlobal(st, "G:"+v.Pkg().Name()+"."+v.Name(), v.Type())
		vc.axiom("(not (= " + hv.C[0] + " 0))")
	default:
		if tv, ok := pk.TypesInfo.Types[init]; ok && tv.Value != nil {
			if _, isB := v.Type().Underlying().(*types.Basic); isB {
				cv := vc.constVal(tv.Value, v.Type())
				hv := vc.readGlobal(st, "G:"+v.Pkg().Name()+"."+v.Name(), v.Type())
				vc.axiom("(= " + hv.C[0] + " " + cv.C[0] + ")")
			}
		}
	}
	vc.assumptions["package variable "+v.Pkg().Name()+"."+v.Name()+" keeps its initial contents (checked: no store outside the initialiser)"] = true
}

// compositeFacts asserts element values of a constant array/slice literal; returns the number of elements.
func (vc *VC) compositeFacts(info *types.Info, cl *ast.CompositeLit, et types.Type, arr, _ string, st *State) int {
	if _, ok := et.Underlying().(*types.Basic); !ok {
		return len(cl.Elts)
	}
	idx := 0
	maxIdx := 0
	for _, e := range cl.Elts {
		val := e
		if kv, ok := e.(*ast.KeyValueExpr); ok {
			if tv, ok := info.Types[kv.Key]; ok && tv.Value != nil {
				if k, ok := constant.Int64Val(constant.ToInt(tv.Value)); ok {
					idx = int(k)
				}
			}
			val = kv.Value
		}
		if tv, ok := info.Types[val]; ok && tv.Value != nil {
			cv := vc.constVal(tv.Value, et)
			ev := vc.readElem(st, et, arr, vc.idx(int64(idx)))
			vc.axiom("(= " + ev.C[0] + " " + cv.C[0] + ")")
		}
		idx++
		if idx > maxIdx {
			maxIdx = idx
		}
	}
	return maxIdx
}

// globalWritten: is there a store into the variable (or its elements) outside package initialisation?
func (p *Program) globalWritten(v *types.Var) bool {
	sp := p.spkgs[v.Pkg().Path()]
	if sp == nil {
		return true
	}
	g, ok := sp.Members[v.Name()].(*ssa.Global)
	if !ok {
		return true
	}
	written := false
	var visit func(f *ssa.Function)
	visit = func(f *ssa.Function) {
		if f == nil || written {
			return
		}
		if strings.HasPrefix(f.Name(), "init") && f.Signature.Recv() == nil && f.Parent() == nil {
			// initialiser code: allowed to write
		} else {
			for _, b := range f.Blocks {
				for _, ins := range b.Instrs {
					st, ok := ins.(*ssa.Store)
					if !ok {
						continue
					}
					if derivesFrom(st.Addr, g, 4) {
						written = true
						return
					}
				}
			}
		}
		for _, af := range f.AnonFuncs {
			visit(af)
		}
	}
	for _, m := range sp.Members {
		switch x := m.(type) {
		case *ssa.Function:
			visit(x)
		case *ssa.Type:
			for _, t := range []types.Type{x.Type(), types.NewPointer(x.Type())} {
				ms := p.sprog.MethodSets.MethodSet(t)
				for i := 0; i < ms.Len(); i++ {
					visit(p.sprog.MethodValue(ms.At(i)))
				}
			}
		}
	}
	return written
}

func derivesFrom(v ssa.Value, g *ssa.Global, depth int) bool {
	if v == g {
		return true
	}
	if depth == 0 {
		return false
	}
	switch x := v.(type) {
	case *ssa.IndexAddr:
		return derivesFrom(x.X, g, depth-1)
	case *ssa.FieldAddr:
		return derivesFrom(x.X, g, depth-1)
	case *ssa.UnOp:
		// loading a slice header from the global, then indexing it
		return derivesFrom(x.X, g, depth-1)
	case *ssa.Slice:
		return derivesFrom(x.X, g, depth-1)
	}
	return false
}
