package main

// Symbolic execution of go/ssa (NaiveForm) functions into verification conditions.

import (
	"fmt"
	"go/constant"
	"go/token"
	"go/types"
	"sort"
	"strings"

	"golang.org/x/tools/go/ssa"
)

type closureRec struct {
	fn       *ssa.Function
	bindings []Val
}

type loopInfo struct {
	header  *ssa.BasicBlock
	ordinal int
	body    map[*ssa.BasicBlock]bool
	spec    *LoopSpec
	entrySt *State
	headSt  *State
	headCond string
	variant string
	variantT types.Type
}

type retRec struct {
	cond    string
	st      *State
	results []Val
	pos     token.Pos // position of the return statement (orders the returns for `set@K`)
}

type Frame struct {
	vc       *VC
	fn       *ssa.Function
	fc       *FuncContract
	parent   *Frame
	depth    int
	regs     map[ssa.Value]Val
	oblFn    string // obligation name prefix (top-level function key)
	label    string // "" for top-level; "inl:callee" for inlined frames
	nopanic  bool
	nopanicGuard string // `nopanic if E`: E at function entry ("" = unconditional)
	lockOnly bool
	globalLock bool // the discipline's lock is a package-level variable: it guards the fields of every instance
	tc       *TypeContract // lock discipline of the top-level receiver type (C10)
	lockAddr string        // address of the top-level receiver's lock
	old      *State
	params   map[string]Val
	paramOrder []string
	blockCond map[*ssa.BasicBlock]string
	blockOut  map[*ssa.BasicBlock]*State
	loops     map[*ssa.BasicBlock]*loopInfo
	backEdge  map[[2]*ssa.BasicBlock]bool
	returns   []retRec
	panics    []retRec
	closures  map[string]*closureRec
	pathCond  string // call-site condition
	unsupported []string
	curCond   string
	curBlock  *ssa.BasicBlock
	edgeConds map[[2]*ssa.BasicBlock]string
	dead      bool
	curPanicking bool
	recovered bool
	trackAlloc bool
	boxes     map[string]Val
	recvRef   string
	reachCond string
	view      string // abstract view selected for callee contracts (top-level frame)
	savedDefers []deferRec // the caller's pending defers while this (inlined) frame runs
}

func (fr *Frame) top() *Frame {
	f := fr
	for f.parent != nil {
		f = f.parent
	}
	return f
}

func (fr *Frame) pos(p token.Pos) token.Position {
	return fr.vc.prog.sprog.Fset.Position(p)
}

func (fr *Frame) oblName(label string) string {
	if fr.label != "" {
		return fr.label + ":" + label
	}
	return label
}

// safety emits a safety obligation (nopanic) or assumes the condition (execution continued normally).
func (fr *Frame) safety(label, cond, goal string, p token.Pos, desc string) {
	if fr.top().lockOnly {
		fr.vc.fact(cond, goal) // execution continued, so the instruction did not panic
		return
	}
	if fr.top().nopanic {
		if g := fr.top().nopanicGuard; g != "" {
			// conditional totality: the obligation is owed only for entry states satisfying the guard; on every
			// path that continues the condition held anyway
			fr.vc.oblige("safety", fr.top().oblFn, fr.oblName(label), andAll(cond, g), goal, fr.pos(p), desc)
			fr.vc.fact(cond, goal)
			return
		}
		fr.vc.oblige("safety", fr.top().oblFn, fr.oblName(label), cond, goal, fr.pos(p), desc)
	} else {
		fr.vc.fact(cond, goal)
	}
}

// ---------- CFG analysis ----------

func (fr *Frame) analyzeCFG() []*ssa.BasicBlock {
	fn := fr.fn
	fr.loops = map[*ssa.BasicBlock]*loopInfo{}
	fr.backEdge = map[[2]*ssa.BasicBlock]bool{}
	reach := map[*ssa.BasicBlock]bool{}
	var order []*ssa.BasicBlock
	var dfs func(b *ssa.BasicBlock)
	state := map[*ssa.BasicBlock]int{}
	dfs = func(b *ssa.BasicBlock) {
		state[b] = 1
		reach[b] = true
		for _, s := range b.Succs {
			if state[s] == 1 {
				// back edge (s on stack)
				fr.backEdge[[2]*ssa.BasicBlock{b, s}] = true
				continue
			}
			if state[s] == 0 {
				dfs(s)
			}
		}
		state[b] = 2
		order = append(order, b)
	}
	dfs(fn.Blocks[0])
	// reverse postorder
	for i, j := 0, len(order)-1; i < j; i, j = i+1, j-1 {
		order[i], order[j] = order[j], order[i]
	}
	// loops
	var headers []*ssa.BasicBlock
	for e := range fr.backEdge {
		h := e[1]
		if !h.Dominates(e[0]) {
			fr.unsupported = append(fr.unsupported, "irreducible control flow")
		}
		li := fr.loops[h]
		if li == nil {
			li = &loopInfo{header: h, body: map[*ssa.BasicBlock]bool{h: true}}
			fr.loops[h] = li
			headers = append(headers, h)
		}
		// natural loop body
		var stack []*ssa.BasicBlock
		if !li.body[e[0]] {
			li.body[e[0]] = true
			stack = append(stack, e[0])
		}
		for len(stack) > 0 {
			x := stack[len(stack)-1]
			stack = stack[:len(stack)-1]
			for _, p := range x.Preds {
				if !li.body[p] && reach[p] {
					li.body[p] = true
					stack = append(stack, p)
				}
			}
		}
	}
	sort.Slice(headers, func(i, j int) bool { return headers[i].Index < headers[j].Index })
	for i, h := range headers {
		fr.loops[h].ordinal = i + 1
		if fr.fc != nil && !fr.top().lockOnly {
			fr.loops[h].spec = fr.fc.Loops[i+1]
		}
	}
	return order
}

// ---------- values ----------

func (fr *Frame) val(v ssa.Value) Val {
	vc := fr.vc
	switch x := v.(type) {
	case *ssa.Const:
		if x.Value == nil {
			return vc.zero(x.Type())
		}
		t := x.Type()
		if b, ok := t.Underlying().(*types.Basic); ok && b.Info()&types.IsUntyped != 0 {
			t = types.Default(t)
		}
		if _, ok := t.Underlying().(*types.Basic); !ok {
			return vc.zero(t)
		}
		return vc.constVal(x.Value, t)
	case *ssa.Global:
		gv := x.Object().(*types.Var)
		t := x.Type().(*types.Pointer).Elem()
		if isAggregate(t) {
			return Val{T: x.Type(), C: []string{vc.globalAddr(gv)}}
		}
		vc.globalInitFacts(gv)
		return Val{T: x.Type(), C: []string{"0"}, Loc: &Loc{Kind: LocGlobal, Key: "G:" + gv.Pkg().Name() + "." + gv.Name(), T: t}}
	case *ssa.Function:
		id := vc.fresh("fn_"+x.Name(), "Int")
		vc.axiom("(not (= " + id + " 0))") // a function value denoting a declared function is never nil
		fr.top().closures[id] = &closureRec{fn: x}
		return Val{T: x.Type(), C: []string{id}}
	case *ssa.Builtin:
		return Val{T: x.Type(), C: []string{"0"}}
	}
	if r, ok := fr.regs[v]; ok {
		return r
	}
	// free variables of closures are bound in regs by the caller
	panic(fmt.Sprintf("value %s (%T) not defined in %s", v.Name(), v, fr.fn.Name()))
}

// load reads through a pointer value.
func (fr *Frame) load(st *State, p Val, pos token.Pos) Val {
	vc := fr.vc
	pt, ok := p.T.Underlying().(*types.Pointer)
	if !ok {
		panic("load from non-pointer " + p.T.String())
	}
	et := pt.Elem()
	if p.Loc != nil {
		switch p.Loc.Kind {
		case LocLocal:
			a := p.Loc.Alloc.(*ssa.Alloc)
			v, ok := st.locals[a]
			if !ok {
				v = vc.zero(et)
			}
			return v
		case LocField:
			v := vc.readKey(st, p.Loc.Key, p.Loc.T, p.Loc.Base)
			fr.loadedFacts(st, v)
			return v
		case LocElem:
			v := vc.readElem(st, p.Loc.T, p.Loc.Base, p.Loc.Idx)
			fr.loadedFacts(st, v)
			return v
		case LocGlobal:
			v := vc.readGlobal(st, p.Loc.Key, p.Loc.T)
			fr.loadedFacts(st, v)
			return v
		}
	}
	if isAggregate(et) {
		// whole-aggregate load: the value is denoted by its address (copy semantics not modelled)
		return Val{T: et, Addr: p.C[0]}
	}
	fr.safety("nil", fr.curCond, "(not (= "+p.C[0]+" 0))", pos, "nil pointer dereference")
	v := vc.readKey(st, cellKey(et), et, p.C[0])
	fr.loadedFacts(st, v)
	return v
}

// loadedFacts: well-formedness of values read from the heap: ints in range (int mode), references allocated.
func (fr *Frame) loadedFacts(st *State, v Val) {
	vc := fr.vc
	if v.Addr != "" {
		return
	}
	if rf := vc.rangeFact(v); rf != "" {
		vc.fact(fr.curCond, rf)
	}
	top := vc.top(st)
	switch v.T.Underlying().(type) {
	case *types.Pointer, *types.Map, *types.Chan:
		vc.fact(fr.curCond, "(<= "+v.C[0]+" "+top+")")
	case *types.Slice:
		vc.fact(fr.curCond, "(<= "+v.C[0]+" "+top+")")
		vc.fact(fr.curCond, fr.sliceWF(v))
	case *types.Interface:
		vc.fact(fr.curCond, "(<= "+v.C[1]+" "+top+")")
		vc.fact(fr.curCond, "(<= 0 "+v.C[0]+")")
		vc.fact(fr.curCond, "(=> (= "+v.C[0]+" 0) (= "+v.C[1]+" 0))")
	}
}

func (fr *Frame) sliceWF(v Val) string {
	vc := fr.vc
	z := vc.idx(0)
	big := vc.intLit(pow2(61), 64)
	return andAll(vc.ile(z, v.C[1]), vc.ile(z, v.C[2]), vc.ile(v.C[2], v.C[3]), vc.ile(v.C[3], big), vc.ile(v.C[1], big),
		"(=> (= "+v.C[0]+" 0) (and (= "+v.C[2]+" "+z+") (= "+v.C[3]+" "+z+") (= "+v.C[1]+" "+z+")))")
}

func (fr *Frame) store(st *State, p Val, v Val, pos token.Pos) {
	vc := fr.vc
	pt := p.T.Underlying().(*types.Pointer)
	et := pt.Elem()
	if v.Addr != "" {
		// storing an aggregate denoted by address: copy fields
		if p.Loc == nil {
			fr.copyAggregate(st, et, p.C[0], v.Addr)
			return
		}
		vc.warn("%s: aggregate store through location not modelled", fr.fn.Name())
		return
	}
	if p.Loc != nil {
		switch p.Loc.Kind {
		case LocLocal:
			st.locals[p.Loc.Alloc.(*ssa.Alloc)] = vc.defineVal(p.Loc.Alloc.(*ssa.Alloc).Comment, Val{T: et, C: v.C})
			return
		case LocField:
			vc.writeKey(st, p.Loc.Key, p.Loc.T, p.Loc.Base, v)
			return
		case LocElem:
			vc.writeElem(st, p.Loc.T, p.Loc.Base, p.Loc.Idx, v)
			return
		case LocGlobal:
			vc.writeGlobal(st, p.Loc.Key, p.Loc.T, v)
			return
		}
	}
	if isAggregate(et) {
		// flattened struct value stored into an addressed struct
		fr.storeFlatStruct(st, et, p.C[0], v)
		return
	}
	fr.safety("nil", fr.curCond, "(not (= "+p.C[0]+" 0))", pos, "nil pointer dereference")
	vc.writeKey(st, cellKey(et), et, p.C[0], v)
}

func (fr *Frame) storeFlatStruct(st *State, t types.Type, ref string, v Val) {
	vc := fr.vc
	s, ok := t.Underlying().(*types.Struct)
	if !ok {
		vc.warn("%s: store of array value not modelled", fr.fn.Name())
		return
	}
	off := 0
	for i := 0; i < s.NumFields(); i++ {
		f := s.Field(i)
		n := len(vc.flat(f.Type()))
		sub := Val{T: f.Type(), C: v.C[off : off+n]}
		off += n
		if isAggregate(f.Type()) {
			fr.storeFlatStruct(st, f.Type(), vc.emb(t, f.Name(), ref), sub)
		} else {
			vc.writeKey(st, fieldKey(t, f.Name()), f.Type(), ref, sub)
		}
	}
}

func (fr *Frame) copyAggregate(st *State, t types.Type, dst, src string) {
	vc := fr.vc
	switch u := t.Underlying().(type) {
	case *types.Struct:
		for _, f := range structFields(t) {
			if isAggregate(f.Type()) {
				fr.copyAggregate(st, f.Type(), vc.emb(t, f.Name(), dst), vc.emb(t, f.Name(), src))
				continue
			}
			v := vc.readKey(st, fieldKey(t, f.Name()), f.Type(), src)
			vc.writeKey(st, fieldKey(t, f.Name()), f.Type(), dst, v)
		}
	case *types.Array:
		et := u.Elem()
		if isAggregate(et) {
			vc.warn("array of aggregates copy not modelled")
			return
		}
		for _, c := range vc.flat(et) {
			s := vc.elemSort(c.sort)
			h := vc.hget(st, elemKey(et)+c.suf, s)
			vc.hset(st, elemKey(et)+c.suf, s, "(store "+h+" "+dst+" (select "+h+" "+src+"))")
		}
	}
}

// flattenAggregate reads an addressed struct into a flattened value.
func (fr *Frame) flattenStruct(st *State, v Val) Val {
	vc := fr.vc
	if v.Addr == "" {
		return v
	}
	s, ok := v.T.Underlying().(*types.Struct)
	if !ok {
		return v
	}
	var out []string
	for i := 0; i < s.NumFields(); i++ {
		f := s.Field(i)
		fv := vc.readField(st, v.T, f, v.Addr)
		if fv.Addr != "" {
			fv = fr.flattenStruct(st, fv)
			if fv.Addr != "" {
				out = append(out, fv.Addr)
				continue
			}
		}
		out = append(out, fv.C...)
	}
	return Val{T: v.T, C: out}
}

// ---------- execution ----------

type execResult struct {
	st      *State
	results []Val
	cond    string // condition under which the function returns normally
}

var curDepthLimit = 8

func (fr *Frame) bindParams(args []Val) {
	fr.params = map[string]Val{}
	for i, p := range fr.fn.Params {
		fr.regs[p] = args[i]
		fr.params[p.Name()] = args[i]
		fr.paramOrder = append(fr.paramOrder, p.Name())
	}
}

// curCond is the reachability condition of the instruction being executed.
// (kept on the frame to avoid threading it everywhere)
func (fr *Frame) exec(st *State) *execResult {
	vc := fr.vc
	fn := fr.fn
	if len(fn.Blocks) == 0 {
		panic("exec: function without body: " + fn.String())
	}
	order := fr.analyzeCFG()
	fr.blockCond = map[*ssa.BasicBlock]string{}
	fr.blockOut = map[*ssa.BasicBlock]*State{}
	edgeCond := map[[2]*ssa.BasicBlock]string{}
	for bi, b := range order {
		var cur *State
		var cond string
		if bi == 0 {
			cur = st
			cond = fr.pathCond
			if cond == "" {
				cond = "true"
			}
		} else {
			var conds []string
			var sts []*State
			for _, p := range b.Preds {
				if fr.backEdge[[2]*ssa.BasicBlock{p, b}] {
					continue
				}
				ec, ok := edgeCond[[2]*ssa.BasicBlock{p, b}]
				if !ok {
					continue
				}
				conds = append(conds, ec)
				sts = append(sts, fr.blockOut[p])
			}
			if len(sts) == 0 {
				continue // unreachable
			}
			c := orAll(conds...)
			cond = c
			if len(c) > 40 {
				cond = vc.fresh(fmt.Sprintf("bc_%s_%d", fn.Name(), b.Index), "Bool")
				vc.axiom("(= " + cond + " " + c + ")")
			}
			cur = vc.mergeStates(conds, sts)
		}
		fr.blockCond[b] = cond
		fr.curCond = cond
		fr.curBlock = b
		fr.edgeConds = edgeCond
		if li, ok := fr.loops[b]; ok {
			cur = fr.loopHead(li, cur, cond)
		}
		for _, ins := range b.Instrs {
			fr.instr(cur, ins)
			if fr.dead {
				break
			}
		}
		fr.dead = false
		fr.blockOut[b] = cur
		// terminator edges
		last := b.Instrs[len(b.Instrs)-1]
		switch t := last.(type) {
		case *ssa.If:
			// the block is left under the condition reached at its end (calls inlined in the block may have
			// strengthened it: a callee that panics or whose loop exit is a path fact does not return on every path)
			c := fr.val(t.Cond).C[0]
			c = vc.define("if", "Bool", c)
			fr.setEdge(edgeCond, b, b.Succs[0], andAll(fr.curCond, c), cur)
			fr.setEdge(edgeCond, b, b.Succs[1], andAll(fr.curCond, notT(c)), cur)
		case *ssa.Jump:
			fr.setEdge(edgeCond, b, b.Succs[0], fr.curCond, cur)
		}
	}
	// merge returns
	res := &execResult{}
	if len(fr.returns) == 0 {
		res.cond = "false"
		res.st = st
		return res
	}
	var conds []string
	var sts []*State
	for _, r := range fr.returns {
		conds = append(conds, r.cond)
		sts = append(sts, r.st)
	}
	res.cond = orAll(conds...)
	res.st = vc.mergeStates(conds, sts)
	nres := len(fr.returns[0].results)
	for i := 0; i < nres; i++ {
		v0 := fr.returns[0].results[i]
		if len(fr.returns) == 1 {
			res.results = append(res.results, v0)
			continue
		}
		if v0.Addr != "" {
			res.results = append(res.results, v0)
			continue
		}
		cs := vc.flat(v0.T)
		nv := Val{T: v0.T, C: make([]string, len(cs))}
		for ci := range cs {
			terms := make([]string, len(fr.returns))
			for k, r := range fr.returns {
				terms[k] = r.results[i].C[ci]
			}
			nv.C[ci] = vc.define("ret"+cs[ci].suf, cs[ci].sort, iteChain(conds, terms))
		}
		res.results = append(res.results, nv)
	}
	return res
}

func (fr *Frame) setEdge(edgeCond map[[2]*ssa.BasicBlock]string, from, to *ssa.BasicBlock, cond string, st *State) {
	if fr.backEdge[[2]*ssa.BasicBlock{from, to}] {
		fr.backEdgeCheck(fr.loops[to], cond, st, from)
		return
	}
	edgeCond[[2]*ssa.BasicBlock{from, to}] = cond
}

// localEnv builds the evaluation environment at a program point: parameters and live locals by name.
func (fr *Frame) localEnv(st *State) *Env {
	vars := map[string]Val{}
	// locals by name; duplicates get #k suffixes in order of allocation
	type la struct {
		a *ssa.Alloc
		v Val
	}
	var ls []la
	for a, v := range st.locals {
		if a.Parent() == fr.fn {
			ls = append(ls, la{a, v})
		}
	}
	sort.Slice(ls, func(i, j int) bool { return ls[i].a.Pos() < ls[j].a.Pos() })
	count := map[string]int{}
	for _, l := range ls {
		n := l.a.Comment
		if n == "" {
			continue
		}
		count[n]++
		if count[n] == 1 {
			vars[n] = l.v
		}
		vars[fmt.Sprintf("%s#%d", n, count[n])] = l.v
	}
	// aggregates allocated as locals (struct/array variables): by name -> pointer value
	for v, r := range fr.regs {
		if a, ok := v.(*ssa.Alloc); ok && a.Comment != "" && isAggregate(a.Type().(*types.Pointer).Elem()) {
			if _, dup := vars[a.Comment]; !dup {
				vars[a.Comment] = Val{T: a.Type().(*types.Pointer).Elem(), Addr: r.C[0]}
			}
		}
	}
	for n, v := range fr.params {
		if _, shadow := vars[n]; !shadow {
			vars[n] = v
		}
	}
	// entry values of parameters: name0
	for n, v := range fr.params {
		vars[n+"0"] = v
	}
	var pkg *types.Package
	if fr.fn.Pkg != nil {
		pkg = fr.fn.Pkg.Pkg
	}
	return &Env{vc: fr.vc, st: st, old: fr.old, vars: vars, pkg: pkg}
}

func (fr *Frame) loopHead(li *loopInfo, st *State, cond string) *State {
	vc := fr.vc
	top := fr.top()
	if li.spec != nil && len(li.spec.Inits) > 0 {
		// ghost initialisation of the loop (`loop K init t := v`): executed once on entry, on the entering state
		for _, gu := range li.spec.Inits {
			if err := fr.ghostAssign(st, fr.localEnv(st), gu); err != nil {
				vc.prog.specErrors = append(vc.prog.specErrors, fmt.Sprintf("%s: loop %d ghost init %s: %v", fr.top().oblFn, li.ordinal, gu.Target.String(), err))
			}
		}
	}
	li.entrySt = st.Clone()
	hpos := li.header.Instrs[0].Pos()
	if hpos == token.NoPos {
		for _, ins := range li.header.Instrs {
			if ins.Pos() != token.NoPos {
				hpos = ins.Pos()
				break
			}
		}
	}
	// 1. invariants on entry
	var invs []*Clause
	if li.spec != nil {
		invs = li.spec.Invariants
	}
	env := fr.localEnv(st)
	env.entry = li.entrySt
	for _, c := range invs {
		for _, part := range splitConj(c.E) {
			t, err := env.EvalBool(part)
			if err != nil {
				fr.specError(c, err)
				continue
			}
			vc.oblige("inv", top.oblFn, fr.oblName(fmt.Sprintf("loop%d-inv-entry", li.ordinal)), cond, t, fr.pos(hpos), part.String())
		}
	}
	// 2. havoc what the loop may modify
	ns := st.Clone()
	mods := fr.loopWrites(li)
	for _, a := range sortedAllocs(mods.locals) {
		if old, ok := ns.locals[a]; ok {
			nv := vc.freshVal(a.Comment, old.T)
			ns.locals[a] = nv
			if rf := vc.rangeFact(nv); rf != "" {
				vc.axiom(rf)
			}
			fr.wfFact(ns, nv, "true")
		}
	}
	heldBefore := ""
	if _, ok := vc.heapSorts["held"]; ok || top.lockOnly {
		heldBefore = vc.hget(st, "held", "(Array Int Bool)")
	}
	if mods.all {
		for _, k := range vc.sortedHeapKeys() {
			srt := vc.heapSorts[k]
			if k == "top" || k == "held" {
				continue
			}
			ns.heap[k] = vc.fresh(k, srt)
			vc.heapRange(k, ns.heap[k], false)
		}
		fr.havocAllMark(ns)
	} else {
		for _, k := range vc.sortedHeapKeys() {
			srt := vc.heapSorts[k]
			if k == "top" || k == "held" {
				continue
			}
			for pfx := range mods.keys {
				if k == pfx || strings.HasPrefix(k, pfx+".") {
					ns.heap[k] = vc.fresh(k, srt)
					vc.heapRange(k, ns.heap[k], false)
					break
				}
			}
		}

	}
	if mods.allocs || mods.all {
		t0 := vc.top(st)
		t1 := vc.fresh("top", "Int")
		vc.axiom("(>= " + t1 + " " + t0 + ")")
		ns.heap["top"] = t1
	}
	if mods.locks {
		// lock state may change inside the loop: auto-invariant "held unchanged at loop head"
		_ = heldBefore
	}
	li.headSt = ns.Clone()
	li.headCond = cond
	// 3. assume invariants
	env2 := fr.localEnv(ns)
	env2.entry = li.entrySt
	for _, c := range invs {
		t, err := env2.EvalBool(c.E)
		if err != nil {
			continue
		}
		vc.fact(cond, t)
	}
	if li.spec != nil && li.spec.Decreases != nil {
		v, err := env2.Eval(li.spec.Decreases.E, nil)
		if err != nil {
			fr.specError(li.spec.Decreases, err)
		} else {
			li.variant = vc.define("variant", vc.sort1(v.T), v.C[0])
			li.variantT = v.T
		}
	}
	return ns
}

func (fr *Frame) backEdgeCheck(li *loopInfo, cond string, st *State, from *ssa.BasicBlock) {
	vc := fr.vc
	top := fr.top()
	pos := li.header.Instrs[0].Pos()
	var invs []*Clause
	if li.spec != nil {
		invs = li.spec.Invariants
	}
	if li.spec != nil {
		// proof hints of the loop (`loop K assert E`): proved in the state at the end of the iteration, then assumed
		aenv := fr.localEnv(st)
		aenv.entry = li.entrySt
		for _, c := range li.spec.Asserts {
			for _, part := range splitConj(c.E) {
				t, err := aenv.EvalBool(part)
				if err != nil {
					fr.specError(c, err)
					continue
				}
				vc.oblige("assert", top.oblFn, fr.oblName(fmt.Sprintf("loop%d-assert", li.ordinal)), cond, t, fr.pos(pos), part.String())
			}
		}
	}
	if li.spec != nil && len(li.spec.Sets) > 0 {
		// ghost updates of the loop (`loop K set t := v`): executed here, at the end of the iteration, on a private copy
		// of the state (the block's out-state may be shared with other edges); locals denote their current values
		st = st.Clone()
		for _, gu := range li.spec.Sets {
			genv := fr.localEnv(st)
			genv.entry = li.entrySt
			if err := fr.ghostAssign(st, genv, gu); err != nil {
				vc.prog.specErrors = append(vc.prog.specErrors, fmt.Sprintf("%s: loop %d ghost update %s: %v", top.oblFn, li.ordinal, gu.Target.String(), err))
			}
		}
	}
	env := fr.localEnv(st)
	env.entry = li.entrySt
	for _, c := range invs {
		for _, part := range splitConj(c.E) {
			t, err := env.EvalBool(part)
			if err != nil {
				fr.specError(c, err)
				continue
			}
			vc.oblige("inv", top.oblFn, fr.oblName(fmt.Sprintf("loop%d-inv-preserved", li.ordinal)), cond, t, fr.pos(pos), part.String())
		}
	}
	if li.variant != "" {
		v, err := env.Eval(li.spec.Decreases.E, nil)
		if err == nil {
			zero := env.litOf(bigZero, li.variantT).C[0]
			lt, _ := vc.binop(token.LSS, v.C[0], li.variant, li.variantT, li.variantT, true)
			ge, _ := vc.binop(token.GEQ, li.variant, zero, li.variantT, li.variantT, true)
			vc.oblige("variant", top.oblFn, fr.oblName(fmt.Sprintf("loop%d-decreases", li.ordinal)), cond, andAll(ge, lt), fr.pos(pos), li.spec.Decreases.Text)
		}
	}
	// lock state must be the same at every arrival at the loop head
	if _, ok := vc.heapSorts["held"]; ok {
		h0 := vc.hget(li.headSt, "held", "(Array Int Bool)")
		h1 := vc.hget(st, "held", "(Array Int Bool)")
		if h0 != h1 {
			vc.oblige("lock", top.oblFn, fr.oblName(fmt.Sprintf("loop%d-lockstate", li.ordinal)), cond, "(= "+h0+" "+h1+")", fr.pos(pos), "lock state unchanged across loop iteration")
		}
	}
}

func (fr *Frame) specError(c *Clause, err error) {
	fr.vc.prog.specErrors = append(fr.vc.prog.specErrors, fmt.Sprintf("%s:%d: %v", c.File, c.Line, err))
}

// wfFact: well-formedness of a fresh/havoced value relative to the state (allocated refs, slice shape)
func (fr *Frame) wfFact(st *State, v Val, cond string) {
	vc := fr.vc
	if v.Addr != "" || len(v.C) == 0 {
		return
	}
	top := vc.top(st)
	switch u := v.T.Underlying().(type) {
	case *types.Pointer, *types.Map, *types.Chan:
		vc.fact(cond, "(<= "+v.C[0]+" "+top+")")
		if _, ok := u.(*types.Pointer); ok {
			vc.fact(cond, "(<= 0 "+v.C[0]+")")
		}
	case *types.Slice:
		vc.fact(cond, "(and (<= 0 "+v.C[0]+") (<= "+v.C[0]+" "+top+"))")
		vc.fact(cond, fr.sliceWF(v))
	case *types.Interface:
		vc.fact(cond, "(<= "+v.C[1]+" "+top+")")
		vc.fact(cond, "(<= 0 "+v.C[0]+")")
		vc.fact(cond, "(=> (= "+v.C[0]+" 0) (= "+v.C[1]+" 0))")
	case *types.Struct:
		off := 0
		for i := 0; i < u.NumFields(); i++ {
			n := len(vc.flat(u.Field(i).Type()))
			fr.wfFact(st, Val{T: u.Field(i).Type(), C: v.C[off : off+n]}, cond)
			off += n
		}
	case *types.Tuple:
		off := 0
		for i := 0; i < u.Len(); i++ {
			n := len(vc.flat(u.At(i).Type()))
			fr.wfFact(st, Val{T: u.At(i).Type(), C: v.C[off : off+n]}, cond)
			off += n
		}
	}
}

var bigZero = newBig(0)

// ---------- instructions ----------

func (fr *Frame) instr(st *State, ins ssa.Instruction) {
	vc := fr.vc
	cond := fr.curCond
	switch x := ins.(type) {
	case *ssa.DebugRef:
	case *ssa.Alloc:
		et := x.Type().(*types.Pointer).Elem()
		switch {
		case isAggregate(et):
			ref := vc.allocRef(st, x.Comment)
			vc.zeroObject(st, et, ref)
			fr.regs[x] = Val{T: x.Type(), C: []string{ref}}
		case !x.Heap:
			st.locals[x] = vc.zero(et)
			fr.regs[x] = Val{T: x.Type(), C: []string{"0"}, Loc: &Loc{Kind: LocLocal, Alloc: x, T: et}}
		default:
			ref := vc.allocRef(st, x.Comment)
			vc.writeKey(st, cellKey(et), et, ref, vc.zero(et))
			fr.regs[x] = Val{T: x.Type(), C: []string{ref}}
		}
	case *ssa.Store:
		fr.store(st, fr.val(x.Addr), fr.val(x.Val), x.Pos())
	case *ssa.UnOp:
		xv := fr.val(x.X)
		switch x.Op {
		case token.MUL:
			v := fr.load(st, xv, x.Pos())
			fr.regs[x] = vc.defineVal(x.Name(), v)
		case token.ARROW:
			nv := vc.freshVal(x.Name(), x.Type())
			fr.regs[x] = nv
			vc.assumptions["channel receive modelled as nondeterministic value"] = true
		default:
			fr.regs[x] = Val{T: x.Type(), C: []string{vc.unop(x.Op, xv.C[0], xv.T, false)}}
		}
	case *ssa.BinOp:
		fr.binop(st, x)
	case *ssa.Convert:
		fr.convert(st, x)
	case *ssa.ChangeType:
		v := fr.val(x.X)
		fr.regs[x] = Val{T: x.Type(), C: v.C, Loc: v.Loc, Addr: v.Addr}
	case *ssa.ChangeInterface:
		v := fr.val(x.X)
		fr.regs[x] = Val{T: x.Type(), C: v.C}
	case *ssa.MakeInterface:
		fr.regs[x] = fr.makeInterface(st, fr.val(x.X), x.Type())
	case *ssa.TypeAssert:
		fr.typeAssert(st, x)
	case *ssa.Extract:
		tv := fr.val(x.Tuple)
		tt := tv.T.(*types.Tuple)
		off := 0
		for i := 0; i < x.Index; i++ {
			off += len(vc.flat(tt.At(i).Type()))
		}
		n := len(vc.flat(tt.At(x.Index).Type()))
		fr.regs[x] = Val{T: x.Type(), C: tv.C[off : off+n]}
	case *ssa.FieldAddr:
		base := fr.val(x.X)
		S := base.T.Underlying().(*types.Pointer).Elem()
		f := S.Underlying().(*types.Struct).Field(x.Field)
		ref := base.C[0]
		fr.safety("nil", cond, "(not (= "+ref+" 0))", x.Pos(), "nil pointer dereference (."+f.Name()+")")
		fr.guardedAccess(st, S, f.Name(), ref, x.Pos())
		if isAggregate(f.Type()) {
			fr.regs[x] = Val{T: x.Type(), C: []string{vc.emb(S, f.Name(), ref)}}
		} else {
			fr.regs[x] = Val{T: x.Type(), C: []string{"0"}, Loc: &Loc{Kind: LocField, Base: ref, Key: fieldKey(S, f.Name()), T: f.Type()}}
		}
	case *ssa.Field:
		base := fr.val(x.X)
		S := base.T
		sf := S.Underlying().(*types.Struct)
		f := sf.Field(x.Field)
		if base.Addr != "" {
			v := vc.readField(st, S, f, base.Addr)
			fr.loadedFacts(st, v)
			fr.regs[x] = v
		} else {
			off := 0
			for i := 0; i < x.Field; i++ {
				off += len(vc.flat(sf.Field(i).Type()))
			}
			n := len(vc.flat(f.Type()))
			fr.regs[x] = Val{T: f.Type(), C: base.C[off : off+n]}
		}
	case *ssa.IndexAddr:
		fr.indexAddr(st, x)
	case *ssa.Index:
		base := fr.val(x.X)
		iv := fr.toIdx(fr.val(x.Index))
		switch u := base.T.Underlying().(type) {
		case *types.Basic: // string
			fr.safety("index", cond, andAll(vc.ile(vc.idx(0), iv), vc.ilt(iv, "(gs.len "+base.C[0]+")")), x.Pos(), "string index out of range")
			fr.regs[x] = Val{T: x.Type(), C: []string{"(gs.at " + base.C[0] + " " + iv + ")"}}
		case *types.Array:
			addr := base.Addr
			if addr == "" {
				addr = base.C[0]
			}
			fr.safety("index", cond, andAll(vc.ile(vc.idx(0), iv), vc.ilt(iv, vc.idx(u.Len()))), x.Pos(), "array index out of range")
			v := vc.readElem(st, u.Elem(), addr, iv)
			fr.loadedFacts(st, v)
			fr.regs[x] = v
		default:
			fr.unsup(x, "Index on "+base.T.String())
		}
	case *ssa.Slice:
		fr.slice(st, x)
	case *ssa.MakeSlice:
		ln := fr.toIdx(fr.val(x.Len))
		cp := fr.toIdx(fr.val(x.Cap))
		fr.safety("makeslice", cond, andAll(vc.ile(vc.idx(0), ln), vc.ile(ln, cp)), x.Pos(), "makeslice: len out of range")
		et := x.Type().Underlying().(*types.Slice).Elem()
		arr := vc.allocRef(st, "mk")
		fr.zeroArray(st, et, arr)
		fr.regs[x] = Val{T: x.Type(), C: []string{arr, vc.idx(0), ln, cp}}
		fr.noteAlloc(st, et, ln, x.Pos())
	case *ssa.MakeMap, *ssa.MakeChan:
		ref := vc.allocRef(st, "mk")
		fr.regs[x.(ssa.Value)] = Val{T: x.(ssa.Value).Type(), C: []string{ref}}
	case *ssa.MakeClosure:
		id := vc.fresh("closure", "Int")
		vc.axiom("(not (= " + id + " 0))") // a closure value is never nil
		var bs []Val
		for _, b := range x.Bindings {
			bs = append(bs, fr.val(b))
		}
		fr.top().closures[id] = &closureRec{fn: x.Fn.(*ssa.Function), bindings: bs}
		fr.regs[x] = Val{T: x.Type(), C: []string{id}}
	case *ssa.Lookup:
		base := fr.val(x.X)
		if isString(base.T) {
			iv := fr.toIdx(fr.val(x.Index))
			fr.safety("index", cond, andAll(vc.ile(vc.idx(0), iv), vc.ilt(iv, "(gs.len "+base.C[0]+")")), x.Pos(), "string index out of range")
			fr.regs[x] = Val{T: x.Type(), C: []string{"(gs.at " + base.C[0] + " " + iv + ")"}}
			break
		}
		nv := vc.freshVal(x.Name(), x.Type())
		fr.wfFact(st, nv, cond)
		if rf := vc.rangeFact(nv); rf != "" {
			vc.axiom(rf)
		}
		fr.regs[x] = nv
		vc.assumptions["Go map lookups are modelled as nondeterministic values"] = true
	case *ssa.MapUpdate:
		vc.assumptions["Go map updates are not modelled"] = true
	case *ssa.Range, *ssa.Next:
		v := x.(ssa.Value)
		nv := vc.freshVal(v.Name(), v.Type())
		fr.wfFact(st, nv, cond)
		fr.regs[v] = nv
		vc.assumptions["range over map/string modelled as nondeterministic iteration"] = true
	case *ssa.Phi:
		b := x.Block()
		var conds, terms [][]string
		_ = conds
		_ = terms
		var ecs []string
		var vals []Val
		for i, p := range b.Preds {
			ec, ok := fr.edgeConds[[2]*ssa.BasicBlock{p, b}]
			if !ok {
				continue
			}
			ecs = append(ecs, ec)
			vals = append(vals, fr.val(x.Edges[i]))
		}
		if len(vals) == 0 {
			fr.regs[x] = vc.zero(x.Type())
			break
		}
		cs := vc.flat(x.Type())
		nv := Val{T: x.Type(), C: make([]string, len(cs))}
		for ci := range cs {
			ts := make([]string, len(vals))
			for k := range vals {
				ts[k] = vals[k].C[ci]
			}
			nv.C[ci] = vc.define(x.Name(), cs[ci].sort, iteChain(ecs, ts))
		}
		fr.regs[x] = nv
	case *ssa.Call:
		res := fr.call(st, &x.Call, x.Pos(), false)
		if x.Type() != nil {
			if tt, ok := x.Type().(*types.Tuple); ok {
				if tt.Len() > 0 {
					var cs []string
					for _, r := range res {
						cs = append(cs, r.C...)
					}
					fr.regs[x] = Val{T: tt, C: cs}
				}
			} else if len(res) > 0 {
				fr.regs[x] = res[0]
			} else {
				fr.regs[x] = vc.zero(x.Type())
			}
		}
	case *ssa.Defer:
		var args []Val
		for _, a := range x.Call.Args {
			args = append(args, fr.val(a))
		}
		var fnv Val
		if x.Call.Value != nil {
			fnv = fr.val(x.Call.Value)
		}
		st.defers = append(st.defers, deferRec{call: &x.Call, args: args, fnv: fnv, pos: x.Pos()})
	case *ssa.RunDefers:
		fr.runDefers(st)
	case *ssa.Go:
		vc.assumptions["goroutine creation is ignored (spawned body not part of the caller's sequential contract)"] = true
	case *ssa.Return:
		var rs []Val
		for _, r := range x.Results {
			rs = append(rs, fr.val(r))
		}
		fr.returns = append(fr.returns, retRec{cond: cond, st: st.Clone(), results: rs, pos: x.Pos()})
	case *ssa.Panic:
		// explicit panic: a safety obligation under nopanic; otherwise the path simply ends
		ps := st.Clone()
		fr.curPanicking = true
		fr.runDefers(ps)
		fr.curPanicking = false
		if !fr.recovered {
			// the panic propagates: the pending defers of the enclosing (inlining) frames run too
			for f := fr; f.parent != nil; f = f.parent {
				ps.defers = append([]deferRec(nil), f.savedDefers...)
				pc := f.parent.curCond
				f.parent.curCond = cond
				f.parent.curPanicking = true
				f.parent.runDefers(ps)
				f.parent.curPanicking = false
				f.parent.curCond = pc
				if f.parent.recovered {
					break
				}
			}
		}
		if fr.recovered && fr.fn.Recover != nil {
			// a deferred call recovered: control resumes at the recover block (returns the named results)
			fr.recovered = false
			for _, ri := range fr.fn.Recover.Instrs {
				fr.instr(ps, ri)
			}
			break
		}
		fr.top().panics = append(fr.top().panics, retRec{cond: cond, st: ps})
		if fr.top().nopanic && !fr.top().lockOnly {
			pc := cond
			if g := fr.top().nopanicGuard; g != "" {
				pc = andAll(cond, g)
			}
			vc.oblige("safety", fr.top().oblFn, fr.oblName("panic"), pc, "false", fr.pos(x.Pos()), "explicit panic reachable")
		}
	case *ssa.If, *ssa.Jump:
	case *ssa.Send, *ssa.Select:
		fr.unsup(ins, "channel operation")
		if v, ok := ins.(ssa.Value); ok {
			fr.regs[v] = vc.freshVal(v.Name(), v.Type())
		}
	default:
		fr.unsup(ins, fmt.Sprintf("instruction %T", ins))
		if v, ok := ins.(ssa.Value); ok && v.Type() != nil {
			fr.regs[v] = vc.freshVal(v.Name(), v.Type())
		}
	}
}

func (fr *Frame) unsup(ins ssa.Instruction, what string) {
	msg := fmt.Sprintf("%s: unsupported %s at %s", fr.fn.Name(), what, fr.pos(ins.Pos()))
	fr.top().unsupported = append(fr.top().unsupported, msg)
}

func (fr *Frame) toIdx(v Val) string {
	return fr.vc.convertNum(v.C[0], v.T, types.Typ[types.Int])
}

func (fr *Frame) zeroArray(st *State, et types.Type, arr string) {
	vc := fr.vc
	if isAggregate(et) {
		return
	}
	for i, c := range vc.flat(et) {
		s := vc.elemSort(c.sort)
		h := vc.hget(st, elemKey(et)+c.suf, s)
		z := vc.zero(et).C[i]
		vc.hset(st, elemKey(et)+c.suf, s, "(store "+h+" "+arr+" ((as const (Array "+vc.idxSort()+" "+c.sort+")) "+z+"))")
	}
}

// noteAlloc: ghost allocation budget (C04): bytes allocated by makes fed by data.
func (fr *Frame) noteAlloc(st *State, et types.Type, n string, pos token.Pos) {
	// allocation budget (property C04): a unit whose contract says `allocbound E` must show, at every make fed by
	// data, that the bytes allocated are at most E evaluated in the entry state — also on paths that panic later
	vc := fr.vc
	top := fr.top()
	if top.fc == nil || top.fc.Opts["allocbound"] == "" || top.lockOnly {
		return
	}
	e, err := ParseExpr(top.fc.Opts["allocbound"])
	if err != nil {
		vc.prog.specErrors = append(vc.prog.specErrors, fmt.Sprintf("%s:%d: allocbound: %v", top.fc.File, top.fc.Line, err))
		return
	}
	vars := map[string]Val{}
	for k, v := range top.params {
		vars[k] = v
	}
	var pkg *types.Package
	if top.fn.Pkg != nil {
		pkg = top.fn.Pkg.Pkg
	}
	env := &Env{vc: vc, st: top.old, old: top.old, vars: vars, pkg: pkg, pkgName: top.fc.Pkg}
	bv, err := env.Eval(e, mathT)
	if err != nil {
		vc.prog.specErrors = append(vc.prog.specErrors, fmt.Sprintf("%s:%d: allocbound: %v", top.fc.File, top.fc.Line, err))
		return
	}
	if vc.mode != ModeInt {
		return
	}
	sz := int64((&types.StdSizes{WordSize: 8, MaxAlign: 8}).Sizeof(et))
	vc.oblige("alloc", top.oblFn, fr.oblName("alloc-bounded"), fr.curCond, fmt.Sprintf("(<= (* %d %s) %s)", sz, n, bv.C[0]), fr.pos(pos),
		"allocation of "+fmt.Sprint(sz)+"*len bytes is within the budget "+top.fc.Opts["allocbound"]+" (entry state)")
}

func (fr *Frame) binop(st *State, x *ssa.BinOp) {
	vc := fr.vc
	a := fr.val(x.X)
	b := fr.val(x.Y)
	boolT := types.Typ[types.Bool]
	if x.Op == token.EQL || x.Op == token.NEQ {
		var t string
		switch a.T.Underlying().(type) {
		case *types.Slice:
			t = "(= " + a.C[0] + " " + b.C[0] + ")"
		case *types.Interface, *types.Struct:
			a = fr.flattenStruct(st, a)
			b = fr.flattenStruct(st, b)
			var ps []string
			for i := range a.C {
				ps = append(ps, "(= "+a.C[i]+" "+b.C[i]+")")
			}
			t = andAll(ps...)
		}
		if t != "" {
			if x.Op == token.NEQ {
				t = notT(t)
			}
			fr.regs[x] = Val{T: boolT, C: []string{vc.define(x.Name(), "Bool", t)}}
			return
		}
	}
	if (x.Op == token.QUO || x.Op == token.REM) && isInteger(a.T) {
		zero := vc.zero(b.T).C[0]
		fr.safety("div", fr.curCond, "(not (= "+b.C[0]+" "+zero+"))", x.Pos(), "integer division by zero")
	}
	t, rt := vc.binop(x.Op, a.C[0], b.C[0], a.T, b.T, false)
	_ = rt
	fr.regs[x] = Val{T: x.Type(), C: []string{vc.define(x.Name(), vc.sort1(x.Type()), t)}}
}

func (fr *Frame) convert(st *State, x *ssa.Convert) {
	vc := fr.vc
	v := fr.val(x.X)
	from, to := v.T, x.Type()
	_, fnum := numOf(from)
	_, tnum := numOf(to)
	switch {
	case fnum && tnum:
		fr.regs[x] = Val{T: to, C: []string{vc.define(x.Name(), vc.sort1(to), vc.convertNum(v.C[0], from, to))}}
	case isString(to) && fnum:
		fr.regs[x] = Val{T: to, C: []string{vc.ufun("gs.fromrune", []string{vc.sort1(from)}, "Str", v.C[0])}}
	case isString(to):
		if sl, ok := from.Underlying().(*types.Slice); ok {
			if b, ok := sl.Elem().Underlying().(*types.Basic); ok && b.Kind() == types.Uint8 {
				s := vc.strFromBytes(st, sl.Elem(), v)
				fr.regs[x] = Val{T: to, C: []string{vc.define(x.Name(), "Str", s)}}
				return
			}
		}
		fr.regs[x] = vc.freshVal(x.Name(), to)
	case isString(from):
		if sl, ok := to.Underlying().(*types.Slice); ok {
			if b, ok := sl.Elem().Underlying().(*types.Basic); ok && b.Kind() == types.Uint8 {
				arr := vc.allocRef(st, "strbytes")
				n := "(gs.len " + v.C[0] + ")"
				// contents: forall i. 0<=i<n => E[arr][i] == gs.at(s,i)
				a := vc.fresh("strarr", "(Array "+vc.idxSort()+" "+vc.isort(8)+")")
				vc.axiom("(forall ((i " + vc.idxSort() + ")) (! (=> (and " + vc.ile(vc.idx(0), "i") + " " + vc.ilt("i", n) + ") (= (select " + a + " i) (gs.at " + v.C[0] + " i))) :pattern ((select " + a + " i))))")
				vc.setElemArray(st, sl.Elem(), arr, a)
				vc.strOfArr[a] = v.C[0]
				fr.regs[x] = Val{T: to, C: []string{arr, vc.idx(0), n, n}}
				return
			}
		}
		nv := vc.freshVal(x.Name(), to)
		fr.wfFact(st, nv, fr.curCond)
		fr.regs[x] = nv
	default:
		// pointer/unsafe conversions: keep representation when shapes agree
		if len(vc.flat(from)) == len(vc.flat(to)) {
			fr.regs[x] = Val{T: to, C: v.C}
		} else {
			fr.unsup(x, "conversion "+from.String()+" -> "+to.String())
			fr.regs[x] = vc.freshVal(x.Name(), to)
		}
	}
}

func (fr *Frame) makeInterface(st *State, v Val, it types.Type) Val {
	vc := fr.vc
	t := v.T
	tid := vc.typeID(t)
	switch t.Underlying().(type) {
	case *types.Pointer, *types.Map, *types.Chan, *types.Signature:
		return Val{T: it, C: []string{tid, v.C[0]}}
	}
	if v.Addr != "" {
		return Val{T: it, C: []string{tid, v.Addr}}
	}
	cs := vc.flat(t)
	if len(cs) == 1 {
		bn := "box_" + sanitize(cs[0].sort)
		un := "unbox_" + sanitize(cs[0].sort)
		vc.ufun(bn, []string{cs[0].sort}, "Int")
		vc.ufun(un, []string{"Int"}, cs[0].sort)
		b := "(" + bn + " " + v.C[0] + ")"
		vc.axiom("(= (" + un + " " + b + ") " + v.C[0] + ")")
		vc.axiom("(< " + b + " 0)")
		return Val{T: it, C: []string{tid, b}}
	}
	// composite payload (slice, struct by value...): opaque box
	b := vc.fresh("box", "Int")
	vc.axiom("(< " + b + " 0)")
	if fr.top().boxes == nil {
		fr.top().boxes = map[string]Val{}
	}
	fr.top().boxes[b] = v
	return Val{T: it, C: []string{tid, b}}
}

func (fr *Frame) typeAssert(st *State, x *ssa.TypeAssert) {
	vc := fr.vc
	v := fr.val(x.X)
	at := x.AssertedType
	var ok string
	var res Val
	if _, isIface := at.Underlying().(*types.Interface); isIface {
		// to-interface assertion: succeeds iff dynamic type implements it
		pn := "impl_" + sanitize(shortTypeKey(at))
		vc.ufun(pn, []string{"Int"}, "Bool")
		// facts for the dynamic-type ids known so far: whether that type implements the asserted interface
		if ifc, isI := at.Underlying().(*types.Interface); isI {
			var tks []string
			for k := range vc.typeIDs {
				tks = append(tks, k)
			}
			sort.Strings(tks)
			for _, k := range tks {
				id := vc.typeIDs[k]
				if dt := vc.typeOfKey[k]; dt != nil {
					if types.Implements(dt, ifc) {
						vc.axiomOnce(fmt.Sprintf("(%s %d)", pn, id))
					} else {
						vc.axiomOnce(fmt.Sprintf("(not (%s %d))", pn, id))
					}
				}
			}
		}
		if e, isEmpty := at.Underlying().(*types.Interface); isEmpty && e.NumMethods() == 0 {
			ok = "(not (= " + v.C[0] + " 0))"
		} else if _, fromI := x.X.Type().Underlying().(*types.Interface); fromI && types.Implements(x.X.Type(), at.Underlying().(*types.Interface)) {
			// the static (interface) type of the operand already has every method of the asserted interface: the
			// assertion succeeds exactly when the operand is not nil
			ok = "(not (= " + v.C[0] + " 0))"
		} else {
			ok = "(and (not (= " + v.C[0] + " 0)) (" + pn + " " + v.C[0] + "))"
		}
		res = Val{T: at, C: v.C}
	} else {
		ok = "(= " + v.C[0] + " " + vc.typeID(at) + ")"
		switch at.Underlying().(type) {
		case *types.Pointer, *types.Map, *types.Chan, *types.Signature:
			res = Val{T: at, C: []string{v.C[1]}}
		default:
			cs := vc.flat(at)
			if len(cs) == 1 {
				un := "unbox_" + sanitize(cs[0].sort)
				vc.ufun("box_"+sanitize(cs[0].sort), []string{cs[0].sort}, "Int")
				vc.ufun(un, []string{"Int"}, cs[0].sort)
				res = Val{T: at, C: []string{"(" + un + " " + v.C[1] + ")"}}
				if rf := vc.rangeFact(res); rf != "" {
					vc.fact(ok, rf)
				}
			} else {
				if bv, found := fr.top().boxes[v.C[1]]; found && identicalT(bv.T, at) {
					res = bv
				} else {
					res = vc.freshVal(x.Name(), at)
					fr.wfFact(st, res, fr.curCond)
				}
			}
		}
	}
	okN := vc.define(x.Name()+"_ok", "Bool", ok)
	if x.CommaOk {
		z := vc.zero(at)
		out := make([]string, 0, len(res.C)+1)
		for i := range res.C {
			out = append(out, "(ite "+okN+" "+res.C[i]+" "+z.C[i]+")")
		}
		out = append(out, okN)
		fr.regs[x] = Val{T: x.Type(), C: out}
	} else {
		fr.safety("typeassert", fr.curCond, okN, x.Pos(), "type assertion to "+shortTypeKey(at))
		fr.regs[x] = res
	}
}

func (fr *Frame) indexAddr(st *State, x *ssa.IndexAddr) {
	vc := fr.vc
	base := fr.val(x.X)
	iv := fr.toIdx(fr.val(x.Index))
	iv = vc.define("idx", vc.idxSort(), iv)
	cond := fr.curCond
	switch u := base.T.Underlying().(type) {
	case *types.Slice:
		fr.safety("index", cond, andAll(vc.ile(vc.idx(0), iv), vc.ilt(iv, base.C[2])), x.Pos(), "index out of range")
		abs := vc.eidx(base.C[1], iv)
		et := u.Elem()
		if isAggregate(et) {
			fr.regs[x] = Val{T: x.Type(), C: []string{vc.elemAddr(et, base.C[0], abs)}}
		} else {
			fr.regs[x] = Val{T: x.Type(), C: []string{"0"}, Loc: &Loc{Kind: LocElem, Base: base.C[0], Idx: abs, T: et}}
		}
	case *types.Pointer:
		a := u.Elem().Underlying().(*types.Array)
		fr.safety("index", cond, andAll(vc.ile(vc.idx(0), iv), vc.ilt(iv, vc.idx(a.Len()))), x.Pos(), "index out of range")
		et := a.Elem()
		if isAggregate(et) {
			fr.regs[x] = Val{T: x.Type(), C: []string{vc.elemAddr(et, base.C[0], iv)}}
		} else {
			fr.regs[x] = Val{T: x.Type(), C: []string{"0"}, Loc: &Loc{Kind: LocElem, Base: base.C[0], Idx: iv, T: et}}
		}
	default:
		fr.unsup(x, "IndexAddr on "+base.T.String())
		fr.regs[x] = vc.freshVal(x.Name(), x.Type())
	}
}

func (fr *Frame) slice(st *State, x *ssa.Slice) {
	vc := fr.vc
	base := fr.val(x.X)
	cond := fr.curCond
	z := vc.idx(0)
	lo := z
	if x.Low != nil {
		lo = vc.define("lo", vc.idxSort(), fr.toIdx(fr.val(x.Low)))
	}
	switch u := base.T.Underlying().(type) {
	case *types.Slice:
		hi := base.C[2]
		if x.High != nil {
			hi = vc.define("hi", vc.idxSort(), fr.toIdx(fr.val(x.High)))
		}
		cp := base.C[3]
		if x.Max != nil {
			mx := fr.toIdx(fr.val(x.Max))
			fr.safety("slice", cond, andAll(vc.ile(hi, mx), vc.ile(mx, base.C[3])), x.Pos(), "slice bounds out of range (max)")
			cp = mx
		}
		fr.safety("slice", cond, andAll(vc.ile(z, lo), vc.ile(lo, hi), vc.ile(hi, base.C[3])), x.Pos(), "slice bounds out of range")
		arr := base.C[0]
		fr.regs[x] = Val{T: x.Type(), C: []string{arr, vc.iadd(base.C[1], lo), vc.isub(hi, lo), vc.isub(cp, lo)}}
	case *types.Basic:
		n := "(gs.len " + base.C[0] + ")"
		hi := n
		if x.High != nil {
			hi = vc.define("hi", vc.idxSort(), fr.toIdx(fr.val(x.High)))
		}
		fr.safety("slice", cond, andAll(vc.ile(z, lo), vc.ile(lo, hi), vc.ile(hi, n)), x.Pos(), "string slice bounds out of range")
		fr.regs[x] = Val{T: x.Type(), C: []string{vc.strSub(base.C[0], lo, hi)}}
	case *types.Pointer:
		a := u.Elem().Underlying().(*types.Array)
		n := vc.idx(a.Len())
		hi := n
		if x.High != nil {
			hi = vc.define("hi", vc.idxSort(), fr.toIdx(fr.val(x.High)))
		}
		fr.safety("slice", cond, andAll(vc.ile(z, lo), vc.ile(lo, hi), vc.ile(hi, n)), x.Pos(), "slice bounds out of range")
		fr.regs[x] = Val{T: x.Type(), C: []string{base.C[0], lo, vc.isub(hi, lo), vc.isub(n, lo)}}
	default:
		fr.unsup(x, "Slice on "+base.T.String())
		fr.regs[x] = vc.freshVal(x.Name(), x.Type())
	}
}

func (vc *VC) strSub(s, lo, hi string) string {
	i := vc.idxSort()
	if _, ok := vc.decls["gs.sub"]; !ok {
		vc.declare("gs.sub", "(declare-fun gs.sub (Str "+i+" "+i+") Str)")
		vc.axiom("(forall ((s Str) (a " + i + ") (b " + i + ")) (! (=> (and " + vc.ile(vc.idx(0), "a") + " " + vc.ile("a", "b") + " " + vc.ile("b", "(gs.len s)") + ") (= (gs.len (gs.sub s a b)) " + vc.isub("b", "a") + ")) :pattern ((gs.sub s a b))))")
		vc.axiom("(forall ((s Str) (a " + i + ") (b " + i + ") (k " + i + ")) (! (=> (and " + vc.ile(vc.idx(0), "k") + " " + vc.ilt("k", vc.isub("b", "a")) + ") (= (gs.at (gs.sub s a b) k) (gs.at s " + vc.iadd("a", "k") + "))) :pattern ((gs.at (gs.sub s a b) k))))")
	}
	return "(gs.sub " + s + " " + lo + " " + hi + ")"
}

// guardedAccess: C10 guarded-by obligation at a field access.
func (fr *Frame) guardedAccess(st *State, S types.Type, fname, ref string, pos token.Pos) {
	top := fr.top()
	if top.tc == nil || top.lockAddr == "" {
		return
	}
	key := structKey(S) + "." + fname
	hit := false
	for _, g := range top.tc.Guarded {
		full := g
		if !strings.Contains(g, ".") {
			full = top.tc.Key + "." + g
		} else if strings.Count(g, ".") == 1 {
			full = top.tc.Pkg + "." + g
		}
		if full == key {
			hit = true
			break
		}
	}
	if !hit {
		return
	}
	// for fields of the receiver type itself, only accesses to the receiver object are governed by its lock
	if structKey(S) == top.tc.Key && !top.globalLock {
		// other instances (e.g. PutAll(other)) are governed by their own lock
		fr.vc.oblige("lock", top.oblFn, fr.oblName("guarded:"+fname), fr.curCond,
			"(=> (= "+ref+" "+top.recvRef+") "+fr.vc.heldTerm(st, top.lockAddr)+")", fr.pos(pos), "access to guarded field "+key+" requires the lock")
		return
	}
	// objects allocated during this call are not yet shared: their initialisation needs no lock
	fresh := "(> " + ref + " " + fr.vc.top(top.old) + ")"
	fr.vc.oblige("lock", top.oblFn, fr.oblName("guarded:"+structKey(S)+"."+fname), fr.curCond, "(or "+fresh+" "+fr.vc.heldTerm(st, top.lockAddr)+")", fr.pos(pos), "access to guarded field "+key+" requires the lock")
}

func (fr *Frame) runDefers(st *State) {
	ds := st.defers
	st.defers = nil
	for i := len(ds) - 1; i >= 0; i-- {
		d := ds[i]
		fr.callWith(st, d.call, d.args, d.fnv, d.pos, true)
	}
}

var _ = constant.MakeBool
