package main

// VC: one verification-condition context (one function under verification, or one lemma).
// State: symbolic heap + locals at a program point.

import (
	"regexp"
	"fmt"
	"go/token"
	"go/types"
	"sort"
	"strings"

	"golang.org/x/tools/go/ssa"
)

type Obligation struct {
	Name    string
	Class   string // post, pre, inv, assert, safety, lock, lemma, variant
	Goal    string // formula that must be valid given facts[0:NFacts]
	NFacts  int
	Pos     token.Position
	Desc    string
	Func    string
	// results
	Status  string // unsat (discharged) | sat | unknown | timeout | error
	Solver  string
	Seconds float64
	Model   string
	File    string
	// SkipFacts: indices of facts left out of the script (used by the vacuity guard to leave out the goals of
	// obligations that were NOT discharged: they are not assumptions, and assuming a false goal would make every unit
	// with a genuine violation look vacuous)
	SkipFacts map[int]bool
}

type VC struct {
	absRem bool // `absrem` clause: x % y with a variable divisor is an abstract function (range facts only)
	prog      *Program
	mode      Mode
	name      string
	decls     map[string]string
	declOrder []string
	facts     []string
	obls      []*Obligation
	strlits   map[string]string
	nfresh    int
	heapSorts map[string]string
	typeIDs   map[string]int
	typeOfKey map[string]types.Type // type behind each registered dynamic-type id
	qdepth    int                   // current nesting depth of spec quantifiers (bound-variable naming)
	onceAx    map[string]bool
	assumptions map[string]bool // external/uncontracted things relied upon
	oblCount  map[string]int
	inlined   map[string]bool
	usedContracts map[string]bool
	warnings  []string
	strOfArr  map[string]string // content-array constant of []byte(s) -> s
	defs      map[string]string // defined name -> term
	globalsDone map[string]bool
	sliceUF   bool            // unit option `sliceidx uf`: slice indices use the gidx function in bv mode too (see eidx)
	with      map[string]bool // lemmas of `scope explicit` this unit asked for (contract clause `with a b`)
	fnStore   map[string][3]string // heap version name -> (object, function value, previous version) of the store that produced it (function-typed fields only)
	allocNames map[string]bool     // references created by allocRef: pairwise distinct
	allocList    []string          // the same references in allocation order
	elemDeclared bool              // an elemaddr_T function (and iselem) has been declared
	unitPkg      string         // package name of the unit being verified
	models       []string       // model namespaces of the unit's package (see ContractSet.PkgModels)
	embSites     int            // number of embedding functions declared (site tags, see emb)
	embSite      map[string]int // embedding function -> its site tag
	opaque    map[string]bool // spec fns whose definition is hidden in this unit (clause `opaque pkg.f ...`)
	skipUndischarged bool // reach script: leave out the goals of obligations that were not discharged
	writeCount map[string]int // number of updates per heap key (static bound for position-wise stream comparison)
	noQuant   bool // lock-discipline VCs: quantified background axioms are dropped (weakening only)
}

func NewVC(prog *Program, mode Mode, name string) *VC {
	vc := &VC{prog: prog, mode: mode, name: name, decls: map[string]string{}, embSite: map[string]int{}, strlits: map[string]string{},
		heapSorts: map[string]string{}, typeIDs: map[string]int{}, onceAx: map[string]bool{}, assumptions: map[string]bool{},
		oblCount: map[string]int{}, inlined: map[string]bool{}, usedContracts: map[string]bool{}, strOfArr: map[string]string{}, defs: map[string]string{}, globalsDone: map[string]bool{}, writeCount: map[string]int{}}
	vc.declare("Str", "(declare-sort Str 0)")
	vc.declare("gs.empty", "(declare-const gs.empty Str)")
	vc.declare("gs.len", "(declare-fun gs.len (Str) "+vc.idxSort()+")")
	vc.declare("gs.at", "(declare-fun gs.at (Str "+vc.idxSort()+") "+vc.isort(8)+")")
	vc.axiom("(= (gs.len gs.empty) " + vc.idx(0) + ")")
	vc.axiom("(forall ((s Str)) (! " + vc.ile(vc.idx(0), "(gs.len s)") + " :pattern ((gs.len s))))")
	vc.axiom("(forall ((s Str)) (! (=> (= (gs.len s) " + vc.idx(0) + ") (= s gs.empty)) :pattern ((gs.len s))))")
	return vc
}

func (vc *VC) declare(name, decl string) {
	if _, ok := vc.decls[name]; ok {
		return
	}
	vc.decls[name] = decl
	vc.declOrder = append(vc.declOrder, name)
	// declarations are emitted in order of creation, interleaved with facts
	vc.facts = append(vc.facts, "\x00"+decl)
}

func (vc *VC) axiom(s string) {
	if vc.noQuant && (strings.Contains(s, "(forall ") || strings.Contains(s, "(exists ")) {
		return
	}
	vc.facts = append(vc.facts, s)
}

func (vc *VC) axiomOnce(s string) {
	if vc.onceAx[s] {
		return
	}
	vc.onceAx[s] = true
	vc.axiom(s)
}

func (vc *VC) fact(cond, s string) {
	if s == "" || s == "true" {
		return
	}
	if cond == "true" || cond == "" {
		vc.facts = append(vc.facts, s)
	} else {
		vc.facts = append(vc.facts, "(=> "+cond+" "+s+")")
	}
}

func (vc *VC) warn(f string, a ...interface{}) {
	vc.warnings = append(vc.warnings, fmt.Sprintf(f, a...))
}

func (vc *VC) fresh(prefix, sort string) string {
	vc.nfresh++
	n := fmt.Sprintf("|%s!%d|", strings.ReplaceAll(prefix, "|", "_"), vc.nfresh)
	vc.declare(n, "(declare-const "+n+" "+sort+")")
	return n
}

func (vc *VC) freshVal(prefix string, t types.Type) Val {
	cs := vc.flat(t)
	out := make([]string, len(cs))
	for i, c := range cs {
		out[i] = vc.fresh(prefix+c.suf, c.sort)
	}
	return Val{T: t, C: out}
}

// define gives a name to a term (keeps formulas linear in size).
func (vc *VC) define(prefix, sort, term string) string {
	if len(term) < 48 {
		return term
	}
	n := vc.fresh(prefix, sort)
	vc.axiom("(= " + n + " " + term + ")")
	vc.defs[n] = term
	return n
}

func (vc *VC) defineVal(prefix string, v Val) Val {
	if v.Addr != "" {
		return v
	}
	cs := vc.flat(v.T)
	out := make([]string, len(cs))
	for i, c := range cs {
		out[i] = vc.define(prefix+c.suf, c.sort, v.C[i])
	}
	return Val{T: v.T, C: out, Loc: v.Loc}
}

func (vc *VC) oblige(class, fn, label, cond, goal string, pos token.Position, desc string) *Obligation {
	key := fn + "/" + label
	vc.oblCount[key]++
	name := fmt.Sprintf("%s#%d", key, vc.oblCount[key])
	g := goal
	if cond != "true" && cond != "" {
		g = "(=> " + cond + " " + goal + ")"
	}
	o := &Obligation{Name: name, Class: class, Goal: g, NFacts: len(vc.facts), Pos: pos, Desc: desc, Func: fn}
	vc.obls = append(vc.obls, o)
	// subsequently assume it (marked, so that the vacuity guard can leave undischarged goals out)
	vc.facts = append(vc.facts, "\x01"+fmt.Sprint(len(vc.obls)-1)+"\x01"+g)
	return o
}

func (vc *VC) typeID(t types.Type) string {
	k := typeKey(t)
	id, ok := vc.typeIDs[k]
	if !ok {
		id = len(vc.typeIDs) + 1
		vc.typeIDs[k] = id
		if vc.typeOfKey == nil {
			vc.typeOfKey = map[string]types.Type{}
		}
		vc.typeOfKey[k] = t
	}
	return fmt.Sprint(id)
}

// ---------- state ----------

type deferRec struct {
	call *ssa.CallCommon
	args []Val
	fnv  Val
	pos  token.Pos
}

type State struct {
	heap   map[string]string
	locals map[*ssa.Alloc]Val
	defers []deferRec
}

func NewState() *State {
	return &State{heap: map[string]string{}, locals: map[*ssa.Alloc]Val{}}
}

func (s *State) Clone() *State {
	n := &State{heap: make(map[string]string, len(s.heap)), locals: make(map[*ssa.Alloc]Val, len(s.locals))}
	for k, v := range s.heap {
		n.heap[k] = v
	}
	for k, v := range s.locals {
		n.locals[k] = v
	}
	n.defers = append([]deferRec(nil), s.defers...)
	return n
}

func (vc *VC) heapInit(key string) string {
	return "|" + strings.ReplaceAll(key, "|", "_") + "@0|"
}

// hget returns the current term of a heap key, declaring the initial version on demand.
func (vc *VC) hget(st *State, key, sort string) string {
	if s, ok := vc.heapSorts[key]; ok {
		if s != sort {
			panic(fmt.Sprintf("heap key %s used with sorts %s and %s", key, s, sort))
		}
	} else {
		vc.heapSorts[key] = sort
		n := vc.heapInit(key)
		vc.declare(n, "(declare-const "+n+" "+sort+")")
		vc.heapRange(key, n, false)
	}
	if t, ok := st.heap[key]; ok {
		return t
	}
	return vc.heapInit(key)
}

// heapRange: int mode only. Memory of a basic integer element type holds values of that type: every symbolic
// version of such an element heap (the initial one and every havoc) satisfies the range of the element type.
// (Code loads already assume this for the loaded value; stating it for the heap version makes it available to
// spec-level reads too, e.g. to discharge the range guard of a quantified `w uint32` instantiated at `old(s[i])`.)
var basicIntRange = map[string][2]interface{}{"uint8": {8, false}, "byte": {8, false}, "uint16": {16, false}, "uint32": {32, false}, "uint64": {64, false},
	"int8": {8, true}, "int16": {16, true}, "int32": {32, true}, "rune": {32, true}, "int64": {64, true}, "int": {64, true}, "uint": {64, false}}

func (vc *VC) heapRange(key, term string, inner bool) {
	if vc.mode != ModeInt || !strings.HasPrefix(key, "E:") {
		return
	}
	r, ok := basicIntRange[strings.TrimPrefix(key, "E:")]
	if !ok {
		return
	}
	bits, signed := r[0].(int), r[1].(bool)
	if inner {
		app := "(select " + term + " i)"
		vc.axiom("(forall ((i Int)) (! " + vc.inRange(app, bits, signed) + " :pattern (" + app + ")))")
		return
	}
	app := "(select (select " + term + " a) i)"
	vc.axiom("(forall ((a Int) (i Int)) (! " + vc.inRange(app, bits, signed) + " :pattern (" + app + ")))")
}

func (vc *VC) hset(st *State, key, sort, term string) {
	vc.writeCount[key]++
	vc.hget(st, key, sort) // ensure declared
	st.heap[key] = vc.define(key, sort, term)
}

func (vc *VC) top(st *State) string { return vc.hget(st, "top", "Int") }

// allocRef creates a fresh reference above the watermark.
func (vc *VC) allocRef(st *State, prefix string) string {
	t := vc.top(st)
	r := vc.fresh(prefix, "Int")
	vc.axiom("(= " + r + " (+ " + t + " 1))")
	vc.hset(st, "top", "Int", r)
	if vc.allocNames == nil {
		vc.allocNames = map[string]bool{}
	}
	vc.allocNames[r] = true
	// object references handed out by the allocator are never element addresses (elemaddr_T values): the two
	// kinds of addresses are disjoint classes of the memory model
	vc.allocList = append(vc.allocList, r)
	if vc.elemDeclared {
		vc.axiom("(not (iselem " + r + "))")
	}
	return r
}

// declIsElem declares the class predicate of element addresses (on first use) and states that none of the
// references handed out so far by the allocator is one.
func (vc *VC) declIsElem() {
	if vc.elemDeclared {
		return
	}
	vc.elemDeclared = true
	vc.declare("iselem", "(declare-fun iselem (Int) Bool)")
	for _, r := range vc.allocList {
		vc.axiom("(not (iselem " + r + "))")
	}
}

// fcOf: the contract a call to key is checked against in this unit: a model-namespace entry of the unit's package first
// (extern@NAME blocks + `usemodel NAME`), then the contract under the plain key.
func (vc *VC) fcOf(key string) *FuncContract {
	for _, m := range vc.models {
		if fc := vc.prog.cs.Funcs[m+"::"+key]; fc != nil {
			return fc
		}
	}
	fc := vc.prog.cs.Funcs[key]
	if fc != nil && fc.Private && fc.Pkg != vc.unitPkg {
		return nil
	}
	return fc
}

func fieldKey(S types.Type, fname string) string { return "F:" + structKey(S) + "." + fname }
func elemKey(T types.Type) string               { return "E:" + shortTypeKey(T) }
func cellKey(T types.Type) string               { return "C:" + shortTypeKey(T) }

func isAggregate(t types.Type) bool {
	switch t.Underlying().(type) {
	case *types.Struct, *types.Array:
		return true
	}
	return false
}

// emb: address of an aggregate field embedded by value in the object at ref.
var boundVarRe = regexp.MustCompile(`(^|[ (])[qp]_[A-Za-z0-9_#]+`)

func (vc *VC) emb(S types.Type, fname, ref string) string {
	n := "emb_" + sanitize(structKey(S)) + "_" + fname
	if _, ok := vc.decls[n]; !ok {
		vc.declare(n, "(declare-fun "+n+" (Int) Int)")
		vc.declare(n+"_inv", "(declare-fun "+n+"_inv (Int) Int)")
		vc.axiom("(forall ((r Int)) (! (= (" + n + "_inv (" + n + " r)) r) :pattern ((" + n + " r))))")
		vc.axiom("(forall ((r Int)) (! (=> (not (= r 0)) (< (" + n + " r) 0)) :pattern ((" + n + " r))))")
		// sub-objects embedded at different (struct type, field) sites are different objects: every embedding function
		// tags its (non-nil) results with its own site number
		if _, ok := vc.decls["emb_site"]; !ok {
			vc.declare("emb_site", "(declare-fun emb_site (Int) Int)")
		}
		vc.embSites++
		vc.embSite[n] = vc.embSites
		vc.axiom(fmt.Sprintf("(forall ((r Int)) (! (=> (not (= r 0)) (= (emb_site (%s r)) %d)) :pattern ((%s r))))", n, vc.embSites, n))
	}
	t := "(" + n + " " + ref + ")"
	// ground instances of the two axioms (the quantified forms are dropped in lock-discipline VCs); not for a term under a
	// spec quantifier (it mentions the bound variable q_x / p_x, which is not in scope of a top-level assertion)
	if boundVarRe.MatchString(ref) {
		return t
	}
	vc.axiomOnce("(and (= (" + n + "_inv " + t + ") " + ref + ") (=> (not (= " + ref + " 0)) (< " + t + " 0)))")
	vc.axiomOnce(fmt.Sprintf("(=> (not (= %s 0)) (= (emb_site %s) %d))", ref, t, vc.embSite[n]))
	return t
}

// readField reads field f (a *types.Var of struct S) of the object at ref.
func (vc *VC) readField(st *State, S types.Type, f *types.Var, ref string) Val {
	if isAggregate(f.Type()) {
		return Val{T: f.Type(), Addr: vc.emb(S, f.Name(), ref)}
	}
	return vc.readKey(st, fieldKey(S, f.Name()), f.Type(), ref)
}

// readKey reads a value of type t stored under heap key prefix at ref (field heaps and cells).
func (vc *VC) readKey(st *State, key string, t types.Type, ref string) Val {
	cs := vc.flat(t)
	out := make([]string, len(cs))
	for i, c := range cs {
		h := vc.hget(st, key+c.suf, "(Array Int "+c.sort+")")
		out[i] = "(select " + h + " " + ref + ")"
	}
	// read-over-write peephole for function values: select(store(h, a, f), a) = f.  Keeping the closure's own name
	// lets a call through a function-typed field that was just set (s := T{cmp: func...}; s.cmp(x)) resolve to its body.
	if _, isFn := t.Underlying().(*types.Signature); isFn && len(cs) == 1 {
		h := st.heap[key+cs[0].suf]
		for {
			rec, ok := vc.fnStore[h]
			if !ok {
				break
			}
			if rec[0] == ref {
				out[0] = rec[1]
				break
			}
			if !(vc.allocNames[rec[0]] && vc.allocNames[ref]) {
				break // the intervening store may alias
			}
			h = rec[2] // a store to a different allocation: look further back
		}
	}
	return Val{T: t, C: out}
}

func (vc *VC) writeKey(st *State, key string, t types.Type, ref string, v Val) {
	cs := vc.flat(t)
	if len(v.C) != len(cs) {
		panic(fmt.Sprintf("writeKey %s: %d comps vs %d (%v / %v)", key, len(v.C), len(cs), t, v.T))
	}
	for i, c := range cs {
		s := "(Array Int " + c.sort + ")"
		h := vc.hget(st, key+c.suf, s)
		vc.hset(st, key+c.suf, s, "(store "+h+" "+ref+" "+v.C[i]+")")
		if _, isFn := t.Underlying().(*types.Signature); isFn && len(cs) == 1 {
			if vc.fnStore == nil {
				vc.fnStore = map[string][3]string{}
			}
			vc.fnStore[st.heap[key+c.suf]] = [3]string{ref, v.C[i], h}
		}
	}
}

func (vc *VC) elemSort(csort string) string {
	return "(Array Int (Array " + vc.idxSort() + " " + csort + "))"
}

// readElem reads element idx (absolute index into backing array arr) of element type t.
func (vc *VC) readElem(st *State, t types.Type, arr, idx string) Val {
	if isAggregate(t) {
		// elements that are aggregates by value: address = elemaddr(arr, idx)
		return Val{T: t, Addr: vc.elemAddr(t, arr, idx)}
	}
	cs := vc.flat(t)
	out := make([]string, len(cs))
	for i, c := range cs {
		h := vc.hget(st, elemKey(t)+c.suf, vc.elemSort(c.sort))
		out[i] = "(select (select " + h + " " + arr + ") " + idx + ")"
	}
	return Val{T: t, C: out}
}

func (vc *VC) elemAddr(t types.Type, arr, idx string) string {
	n := "elemaddr_" + sanitize(shortTypeKey(t))
	if _, ok := vc.decls[n]; !ok {
		vc.declare(n, "(declare-fun "+n+" (Int "+vc.idxSort()+") Int)")
		vc.declare(n+"_arr", "(declare-fun "+n+"_arr (Int) Int)")
		vc.declare(n+"_idx", "(declare-fun "+n+"_idx (Int) "+vc.idxSort()+")")
		vc.axiom("(forall ((a Int) (i " + vc.idxSort() + ")) (! (and (= (" + n + "_arr (" + n + " a i)) a) (= (" + n + "_idx (" + n + " a i)) i)) :pattern ((" + n + " a i))))")
		vc.declIsElem()
		vc.axiom("(forall ((a Int) (i " + vc.idxSort() + ")) (! (iselem (" + n + " a i)) :pattern ((" + n + " a i))))")
	}
	return "(" + n + " " + arr + " " + idx + ")"
}

func (vc *VC) writeElem(st *State, t types.Type, arr, idx string, v Val) {
	cs := vc.flat(t)
	for i, c := range cs {
		s := vc.elemSort(c.sort)
		h := vc.hget(st, elemKey(t)+c.suf, s)
		vc.hset(st, elemKey(t)+c.suf, s, "(store "+h+" "+arr+" (store (select "+h+" "+arr+") "+idx+" "+v.C[i]+"))")
	}
}

// elemArray returns the whole (index -> value) array of backing store arr for single-component element types.
func (vc *VC) elemArray(st *State, t types.Type, arr string) string {
	cs := vc.flat(t)
	if len(cs) != 1 {
		panic("elemArray on composite element type " + t.String())
	}
	h := vc.hget(st, elemKey(t), vc.elemSort(cs[0].sort))
	// peel (store H arr V) when the same array reference is selected (through defined names)
	cur := h
	for k := 0; k < 4; k++ {
		if d, ok := vc.defs[cur]; ok {
			cur = d
		}
		pfx := "(store "
		if strings.HasPrefix(cur, pfx) && strings.HasSuffix(cur, ")") {
			parts := splitSexp(cur[len(pfx) : len(cur)-1])
			if len(parts) == 3 && parts[1] == arr {
				return parts[2]
			}
		}
		break
	}
	return "(select " + h + " " + arr + ")"
}

// splitSexp splits a space-separated sequence of s-expressions at top level.
func splitSexp(s string) []string {
	var out []string
	depth, start := 0, 0
	inBar := false
	for i := 0; i < len(s); i++ {
		switch {
		case s[i] == '|':
			inBar = !inBar
		case inBar:
		case s[i] == '(':
			depth++
		case s[i] == ')':
			depth--
		case s[i] == ' ' && depth == 0:
			if i > start {
				out = append(out, s[start:i])
			}
			start = i + 1
		}
	}
	if start < len(s) {
		out = append(out, s[start:])
	}
	return out
}

func (vc *VC) setElemArray(st *State, t types.Type, arr, value string) {
	cs := vc.flat(t)
	s := vc.elemSort(cs[0].sort)
	h := vc.hget(st, elemKey(t), s)
	vc.hset(st, elemKey(t), s, "(store "+h+" "+arr+" "+value+")")
}

// structFields enumerates the fields of a struct type.
func structFields(t types.Type) []*types.Var {
	s, ok := t.Underlying().(*types.Struct)
	if !ok {
		return nil
	}
	out := make([]*types.Var, s.NumFields())
	for i := range out {
		out[i] = s.Field(i)
	}
	return out
}

// zeroObject initialises all fields of the struct object at ref to zero values (recursively for embedded aggregates).
func (vc *VC) zeroObject(st *State, t types.Type, ref string) {
	if ts := t.String(); ts == "sync.Mutex" || ts == "sync.RWMutex" {
		// a mutex allocated on its own (new(sync.Mutex)): its zero value is an unlocked mutex
		h := vc.hget(st, "held", "(Array Int Bool)")
		vc.hset(st, "held", "(Array Int Bool)", "(store "+h+" "+ref+" false)")
	}
	switch u := t.Underlying().(type) {
	case *types.Struct:
		for _, f := range structFields(t) {
			if ft := f.Type().String(); ft == "sync.Mutex" || ft == "sync.RWMutex" {
				if _, ok := vc.heapSorts["held"]; ok {
					h := vc.hget(st, "held", "(Array Int Bool)")
					vc.hset(st, "held", "(Array Int Bool)", "(store "+h+" "+vc.emb(t, f.Name(), ref)+" false)")
				}
			}
			if isAggregate(f.Type()) {
				if ts := f.Type().String(); ts == "sync.Mutex" || ts == "sync.RWMutex" {
					// the zero value of a mutex is an unlocked mutex
					h := vc.hget(st, "held", "(Array Int Bool)")
					vc.hset(st, "held", "(Array Int Bool)", "(store "+h+" "+vc.emb(t, f.Name(), ref)+" false)")
				}
				vc.zeroObject(st, f.Type(), vc.emb(t, f.Name(), ref))
				continue
			}
			vc.writeKey(st, fieldKey(t, f.Name()), f.Type(), ref, vc.zero(f.Type()))
		}
		// ghost fields start at their zero value too (for external types this is an assumption about the zero value)
		for _, g := range vc.prog.ghostFieldsOf(structKey(t)) {
			env := &Env{vc: vc, pkg: vc.prog.typesPkgByName(g.Pkg), pkgName: g.Pkg}
			gt := env.resolveType(g.Type)
			vc.writeKey(st, fieldKey(t, g.Name), gt, ref, vc.zero(gt))
		}
	case *types.Array:
		et := u.Elem()
		if isAggregate(et) {
			return // elements unconstrained (rare)
		}
		for i, c := range vc.flat(et) {
			s := vc.elemSort(c.sort)
			h := vc.hget(st, elemKey(et)+c.suf, s)
			z := vc.zero(et).C[i]
			vc.hset(st, elemKey(et)+c.suf, s, "(store "+h+" "+ref+" ((as const (Array "+vc.idxSort()+" "+c.sort+")) "+z+"))")
		}
	}
}

// mergeStates merges predecessor states under their edge conditions.
func (vc *VC) mergeStates(conds []string, sts []*State) *State {
	if len(sts) == 1 {
		return sts[0].Clone()
	}
	out := NewState()
	keys := map[string]bool{}
	for _, s := range sts {
		for k := range s.heap {
			keys[k] = true
		}
	}
	var ks []string
	for k := range keys {
		ks = append(ks, k)
	}
	sort.Strings(ks)
	for _, k := range ks {
		srt := vc.heapSorts[k]
		terms := make([]string, len(sts))
		same := true
		for i, s := range sts {
			terms[i] = vc.hget(s, k, srt)
			if terms[i] != terms[0] {
				same = false
			}
		}
		if same {
			out.heap[k] = terms[0]
			continue
		}
		out.heap[k] = vc.define(k, srt, iteChain(conds, terms))
	}
	// locals: those present in all
	l0 := map[*ssa.Alloc]bool{}
	for a := range sts[0].locals {
		l0[a] = true
	}
	for _, a := range sortedAllocs(l0) {
		v0 := sts[0].locals[a]
		all := true
		for _, s := range sts[1:] {
			if _, ok := s.locals[a]; !ok {
				all = false
				break
			}
		}
		if !all {
			continue
		}
		nv := Val{T: v0.T, C: make([]string, len(v0.C))}
		cs := vc.flat(v0.T)
		for ci := range v0.C {
			terms := make([]string, len(sts))
			same := true
			for i, s := range sts {
				terms[i] = s.locals[a].C[ci]
				if terms[i] != terms[0] {
					same = false
				}
			}
			if same {
				nv.C[ci] = terms[0]
			} else {
				nv.C[ci] = vc.define(a.Comment+cs[ci].suf, cs[ci].sort, iteChain(conds, terms))
			}
		}
		out.locals[a] = nv
	}
	// defers: must agree
	out.defers = append([]deferRec(nil), sts[0].defers...)
	for _, s := range sts[1:] {
		if len(s.defers) != len(out.defers) {
			// keep the longest common prefix; conditional defers are outside the subset
			vc.warn("conditional defer stack at merge (unsupported, using shortest)")
			if len(s.defers) < len(out.defers) {
				out.defers = append([]deferRec(nil), s.defers...)
			}
		}
	}
	return out
}

func iteChain(conds, terms []string) string {
	r := terms[len(terms)-1]
	for i := len(terms) - 2; i >= 0; i-- {
		if terms[i] == r {
			continue
		}
		r = "(ite " + conds[i] + " " + terms[i] + " " + r + ")"
	}
	return r
}

// topArgs splits "(op a b c)" into op and its top-level arguments; ok is false for atoms.
func topArgs(x string) (op string, args []string, ok bool) {
	if len(x) < 3 || x[0] != '(' || x[len(x)-1] != ')' {
		return "", nil, false
	}
	body := x[1 : len(x)-1]
	d, start, inBar := 0, 0, false
	var parts []string
	for i := 0; i < len(body); i++ {
		c := body[i]
		if c == '|' {
			inBar = !inBar
		}
		if inBar {
			continue
		}
		switch c {
		case '(':
			d++
		case ')':
			d--
			if d < 0 {
				return "", nil, false
			}
		case ' ':
			if d == 0 {
				if i > start {
					parts = append(parts, body[start:i])
				}
				start = i + 1
			}
		}
	}
	if d != 0 || inBar {
		return "", nil, false
	}
	if start < len(body) {
		parts = append(parts, body[start:])
	}
	if len(parts) == 0 {
		return "", nil, false
	}
	return parts[0], parts[1:], true
}

// simpBool folds the propositional trivia that constant conditions in the code produce: (= a a), (not true), ...
func simpBool(x string) string {
	if op, args, ok := topArgs(x); ok {
		switch {
		case op == "=" && len(args) == 2 && args[0] == args[1]:
			return "true"
		case op == "not" && len(args) == 1:
			switch simpBool(args[0]) {
			case "true":
				return "false"
			case "false":
				return "true"
			}
		}
	}
	return x
}

func conjuncts(x string) []string {
	if op, args, ok := topArgs(x); ok && op == "and" {
		return args
	}
	return []string{x}
}

// mergeComplement: (P and l) or (P and not l) == P
func mergeComplement(a, b string) (string, bool) {
	ca, cb := conjuncts(a), conjuncts(b)
	if len(ca) != len(cb) {
		return "", false
	}
	inB := map[string]bool{}
	for _, y := range cb {
		inB[y] = true
	}
	var common []string
	var onlyA []string
	for _, y := range ca {
		if inB[y] {
			common = append(common, y)
		} else {
			onlyA = append(onlyA, y)
		}
	}
	if len(onlyA) != 1 || !inB[notT(onlyA[0])] || len(common) != len(ca)-1 {
		return "", false
	}
	return andAll(common...), true
}

func andAll(xs ...string) string {
	var ys []string
	for _, x := range xs {
		x = simpBool(x)
		if x == "" || x == "true" {
			continue
		}
		if x == "false" {
			return "false"
		}
		ys = append(ys, x)
	}
	switch len(ys) {
	case 0:
		return "true"
	case 1:
		return ys[0]
	}
	return "(and " + strings.Join(ys, " ") + ")"
}

func orAll(xs ...string) string {
	var ys []string
	for _, x := range xs {
		x = simpBool(x)
		if x == "" || x == "false" {
			continue
		}
		if x == "true" {
			return "true"
		}
		ys = append(ys, x)
	}
	// (P and l) or (P and not l) == P, repeatedly (the two arms of a branch meeting again)
	for changed := true; changed && len(ys) > 1; {
		changed = false
	outer:
		for i := 0; i < len(ys); i++ {
			for j := i + 1; j < len(ys); j++ {
				if m, ok := mergeComplement(ys[i], ys[j]); ok {
					if m == "true" {
						return "true"
					}
					ys[i] = m
					ys = append(ys[:j], ys[j+1:]...)
					changed = true
					break outer
				}
			}
		}
	}
	switch len(ys) {
	case 0:
		return "false"
	case 1:
		return ys[0]
	}
	return "(or " + strings.Join(ys, " ") + ")"
}

func notT(x string) string {
	if x == "true" {
		return "false"
	}
	if x == "false" {
		return "true"
	}
	if strings.HasPrefix(x, "(not ") && strings.HasSuffix(x, ")") {
		inner := x[5 : len(x)-1]
		if balanced(inner) {
			return inner
		}
	}
	return "(not " + x + ")"
}

func balanced(s string) bool {
	d := 0
	for i := 0; i < len(s); i++ {
		switch s[i] {
		case '(':
			d++
		case ')':
			d--
			if d < 0 {
				return false
			}
		case ' ':
			if d == 0 {
				return false
			}
		}
	}
	return d == 0
}

// SMT script for an obligation.
func (vc *VC) script(o *Obligation, wantModel bool) string {
	var b strings.Builder
	if wantModel {
		b.WriteString("(set-option :produce-models true)\n")
	}
	b.WriteString("(set-logic ALL)\n")
	// The string prelude (sort Str, gs.* and three quantified axioms) is emitted by NewVC for every VC. When nothing
	// else mentions strings it is dropped from the script: the remaining problem is often quantifier-free, and the
	// solvers are much faster on it (dropping unused declarations/axioms cannot make a goal provable that was not).
	const nPrelude = 7
	usesStr := strings.Contains(o.Goal, "gs.") || strings.Contains(o.Goal, "Str")
	for i, f := range vc.facts[:o.NFacts] {
		if usesStr {
			break
		}
		if i >= nPrelude && (strings.Contains(f, "gs.") || strings.Contains(f, " Str")) {
			usesStr = true
		}
	}
	for i, f := range vc.facts[:o.NFacts] {
		if !usesStr && i < nPrelude && (strings.Contains(f, "gs.") || strings.Contains(f, "declare-sort Str")) {
			continue
		}
		if strings.HasPrefix(f, "\x01") {
			k := strings.Index(f[1:], "\x01")
			var oi int
			fmt.Sscan(f[1:1+k], &oi)
			if vc.skipUndischarged && vc.obls[oi].Status != "unsat" {
				continue
			}
			f = f[k+2:]
		}
		if strings.HasPrefix(f, "\x00") {
			b.WriteString(f[1:])
			b.WriteString("\n")
		} else {
			b.WriteString("(assert ")
			b.WriteString(f)
			b.WriteString(")\n")
		}
	}
	b.WriteString("(assert (not ")
	b.WriteString(o.Goal)
	b.WriteString("))\n(check-sat)\n")
	if wantModel {
		b.WriteString("(get-model)\n")
	}
	return b.String()
}

// incrementalScript: all obligations of the VC in one solver session (facts are asserted once, each goal is
// checked under push/pop). Obligation-derived facts are asserted like in the stand-alone scripts.
func (vc *VC) incrementalScript(timeoutMs int, from, to int) string {
	var b strings.Builder
	b.WriteString("(set-option :print-success false)\n")
	b.WriteString(fmt.Sprintf("(set-option :timeout %d)\n", timeoutMs))
	b.WriteString("(set-logic ALL)\n")
	next := 0
	emit := func(upto int) {
		for ; next < upto; next++ {
			f := vc.facts[next]
			if strings.HasPrefix(f, "\x01") {
				k := strings.Index(f[1:], "\x01")
				f = f[k+2:]
			}
			if strings.HasPrefix(f, "\x00") {
				b.WriteString(f[1:])
				b.WriteString("\n")
			} else {
				b.WriteString("(assert ")
				b.WriteString(f)
				b.WriteString(")\n")
			}
		}
	}
	for i, o := range vc.obls {
		if i >= to {
			break
		}
		emit(o.NFacts)
		if i < from {
			continue
		}
		b.WriteString(fmt.Sprintf("(echo \"@obl %d\")\n(push 1)\n(assert (not %s))\n(check-sat)\n(pop 1)\n", i, o.Goal))
	}
	return b.String()
}

// sortedHeapKeys: deterministic iteration order over the heap keys (the generated SMT text must not depend on Go's
// map iteration order: identical input gives an identical script, hence an identical solver run)
func (vc *VC) sortedHeapKeys() []string {
	ks := make([]string, 0, len(vc.heapSorts))
	for k := range vc.heapSorts {
		ks = append(ks, k)
	}
	sort.Strings(ks)
	return ks
}

func sortedAllocs(m map[*ssa.Alloc]bool) []*ssa.Alloc {
	as := make([]*ssa.Alloc, 0, len(m))
	for a := range m {
		as = append(as, a)
	}
	sort.Slice(as, func(i, j int) bool {
		if as[i].Pos() != as[j].Pos() {
			return as[i].Pos() < as[j].Pos()
		}
		return as[i].Name() < as[j].Name()
	})
	return as
}
