package main

import (
	"bytes"
	"context"
	"fmt"
	"os"
	"os/exec"
	"path/filepath"
	"strings"
	"sync"
	"time"
)

type SolverCfg struct {
	WorkDir  string
	Timeout  time.Duration // per solver attempt
	Parallel int
	Thorough bool // consult all solvers and cross-check
	KeepFiles bool
}

type solverSpec struct {
	name string
	args func(timeoutS int, file string) []string
}

var solvers = []solverSpec{
	{"z3new", func(t int, f string) []string { return []string{"z3-new", fmt.Sprintf("-T:%d", t), f} }},
	{"z3", func(t int, f string) []string { return []string{"z3", fmt.Sprintf("-T:%d", t), f} }},
	{"cvc5", func(t int, f string) []string {
		return []string{"cvc5", fmt.Sprintf("--tlimit=%d", t*1000), f}
	}},
}

func runSolver(s solverSpec, file string, timeout time.Duration) (status string, out string, secs float64) {
	ts := int(timeout.Seconds())
	if ts < 1 {
		ts = 1
	}
	args := s.args(ts, file)
	ctx, cancel := context.WithTimeout(context.Background(), timeout+3*time.Second)
	defer cancel()
	cmd := exec.CommandContext(ctx, args[0], args[1:]...)
	var buf bytes.Buffer
	cmd.Stdout = &buf
	cmd.Stderr = &buf
	t0 := time.Now()
	_ = cmd.Run()
	secs = time.Since(t0).Seconds()
	out = buf.String()
	first := strings.TrimSpace(strings.SplitN(strings.TrimSpace(out), "\n", 2)[0])
	switch {
	case first == "unsat":
		return "unsat", out, secs
	case first == "sat":
		return "sat", out, secs
	case first == "unknown":
		return "unknown", out, secs
	case strings.Contains(first, "timeout") || ctx.Err() != nil:
		return "timeout", out, secs
	case strings.Contains(out, "interrupted") || strings.Contains(out, "time limit"):
		return "timeout", out, secs
	}
	return "error", out, secs
}

// Discharge runs the solvers on every obligation of the units.
func Discharge(units []*Unit, cfg SolverCfg) {
	os.MkdirAll(cfg.WorkDir, 0o755)
	type job struct {
		u *Unit
		o *Obligation
	}
	var jobs []job
	for _, u := range units {
		if u.VC == nil {
			continue
		}
		for _, o := range u.VC.obls {
			jobs = append(jobs, job{u, o})
		}
	}
	ch := make(chan job)
	var wg sync.WaitGroup
	par := cfg.Parallel
	if par <= 0 {
		par = 8
	}
	for w := 0; w < par; w++ {
		wg.Add(1)
		go func() {
			defer wg.Done()
			for j := range ch {
				dischargeOne(j.u, j.o, cfg)
			}
		}()
	}
	for _, j := range jobs {
		ch <- j
	}
	close(ch)
	wg.Wait()
	// vacuity guard: the facts of each unit together with its normal-return condition must not be contradictory
	var wg2 sync.WaitGroup
	sem := make(chan bool, par)
	for _, u := range units {
		if u.VC == nil {
			continue
		}
		if u.ReachCond == "" {
			u.ReachCond = "true"
		}
		wg2.Add(1)
		sem <- true
		go func(u *Unit) {
			defer wg2.Done()
			defer func() { <-sem }()
			o := &Obligation{Name: u.VC.name + "/reach", Goal: "(not " + u.ReachCond + ")", NFacts: len(u.VC.facts)}
			file := oblFile(cfg.WorkDir, o)
			os.WriteFile(file, []byte(u.VC.script(o, false)), 0o644)
			st, _, _ := runSolver(solvers[0], file, 2*time.Second)
			switch st {
			case "unsat":
				u.Reach = "unsat"
			case "sat":
				u.Reach = "sat"
			default:
				u.Reach = "unknown"
			}
			os.Remove(file)
		}(u)
	}
	wg2.Wait()
}

func oblFile(workdir string, o *Obligation) string {
	n := sanitize(o.Name)
	if len(n) > 150 {
		n = n[:150]
	}
	return filepath.Join(workdir, n+".smt2")
}

func dischargeOne(u *Unit, o *Obligation, cfg SolverCfg) {
	file := oblFile(cfg.WorkDir, o)
	script := u.VC.script(o, false)
	os.WriteFile(file, []byte(script), 0o644)
	o.File = file
	total := 0.0
	verdicts := map[string]string{}
	// primary: z3-new with a short budget, then the others
	order := []int{0, 1, 2}
	for k, si := range order {
		s := solvers[si]
		to := cfg.Timeout
		if k == 0 && !cfg.Thorough && to > 10*time.Second {
			to = 10 * time.Second
		}
		st, out, secs := runSolver(s, file, to)
		total += secs
		verdicts[s.name] = st
		if st == "unsat" {
			if o.Status != "unsat" {
				o.Status, o.Solver = "unsat", s.name
			}
			if !cfg.Thorough {
				break
			}
			continue
		}
		if st == "sat" {
			// a sat answer on a quantified problem may be spurious only for incomplete instantiation "unknown";
			// solvers answering sat claim a model: keep it and fetch the model
			if o.Status != "unsat" {
				o.Status, o.Solver = "sat", s.name
				mfile := strings.TrimSuffix(file, ".smt2") + ".model.smt2"
				os.WriteFile(mfile, []byte(u.VC.script(o, true)), 0o644)
				_, mout, _ := runSolver(s, mfile, to)
				o.Model = mout
				if !cfg.KeepFiles {
					os.Remove(mfile)
				}
			}
			if !cfg.Thorough {
				break
			}
			continue
		}
		if o.Status == "" || o.Status == "error" {
			o.Status = st
			o.Solver = s.name
			if st == "error" {
				o.Model = out
			}
		}
	}
	if cfg.Thorough {
		// cross-check: sat vs unsat disagreement is an engine error
		hasSat, hasUnsat := false, false
		for _, v := range verdicts {
			if v == "sat" {
				hasSat = true
			}
			if v == "unsat" {
				hasUnsat = true
			}
		}
		if hasSat && hasUnsat {
			o.Status = "error"
			o.Model = fmt.Sprintf("solver disagreement: %v", verdicts)
		}
	}
	o.Seconds = total
	if o.Status == "unsat" && !cfg.KeepFiles {
		os.Remove(file)
	}
}
