package main

import (
	"math/rand"
	"bytes"
	"context"
	"fmt"
	"hash/fnv"
	"os"
	"os/exec"
	"path/filepath"
	"strings"
	"sync"
	"time"
)

type SolverCfg struct {
	WorkDir   string
	Timeout   time.Duration // per solver attempt in the race
	Parallel  int
	Thorough  bool // consult all solvers and cross-check
	KeepFiles bool
	// obligations recorded as known findings: they are expected to fail, so they get a short budget and no retry
	// (a listed obligation that has become provable is still discharged if it is proved within that budget)
	Known map[string]bool
	Seed  int          // thorough: seeds the choice of the cross-solver audit sample
	Audit *AuditResult // thorough: filled by Discharge
}

// AuditResult: thorough tier. A sample of the obligations that the fast path (incremental z3-new session) discharged is
// sent again, each as a stand-alone script, to the two other solvers; a `sat` there is a solver disagreement.
type AuditResult struct {
	Sampled, Confirmed, Undecided, Disagree int
}

// thoroughGrace: in the thorough tier, how long the remaining solvers may still contradict the first verdict
const thoroughGrace = 8 * time.Second

type solverSpec struct {
	name string
	args func(timeoutS int, file string) []string
}

var solvers = []solverSpec{
	{"z3new", func(t int, f string) []string { return []string{"z3-new", fmt.Sprintf("-T:%d", t), f} }},
	{"z3new-norel", func(t int, f string) []string {
		return []string{"z3-new", fmt.Sprintf("-T:%d", t), "smt.relevancy=0", "smt.auto_config=false", f}
	}},
	{"z3new-arith2", func(t int, f string) []string {
		return []string{"z3-new", fmt.Sprintf("-T:%d", t), "smt.arith.solver=2", f}
	}},
	{"z3", func(t int, f string) []string { return []string{"z3", fmt.Sprintf("-T:%d", t), f} }},
	{"cvc5", func(t int, f string) []string {
		return []string{"cvc5", fmt.Sprintf("--tlimit=%d", t*1000), f}
	}},
}

func runSolverCtx(ctx context.Context, s solverSpec, file string, timeout time.Duration) (status string, out string, secs float64) {
	ts := int(timeout.Seconds())
	if ts < 1 {
		ts = 1
	}
	args := s.args(ts, file)
	cctx, cancel := context.WithTimeout(ctx, timeout+3*time.Second)
	defer cancel()
	cmd := exec.CommandContext(cctx, args[0], args[1:]...)
	var buf bytes.Buffer
	cmd.Stdout = &buf
	cmd.Stderr = &buf
	t0 := time.Now()
	_ = cmd.Run()
	secs = time.Since(t0).Seconds()
	out = buf.String()
	// the verdict is the first line that is not a solver warning (z3 prints "WARNING: ..." lines about patterns first)
	first := ""
	for _, l := range strings.Split(strings.TrimSpace(out), "\n") {
		l = strings.TrimSpace(l)
		if l == "" || strings.HasPrefix(l, "WARNING") {
			continue
		}
		first = l
		break
	}
	switch {
	case first == "unsat":
		return "unsat", out, secs
	case first == "sat":
		return "sat", out, secs
	case first == "unknown":
		return "unknown", out, secs
	case ctx.Err() != nil:
		return "cancelled", out, secs
	case strings.Contains(first, "timeout") || cctx.Err() != nil:
		return "timeout", out, secs
	case strings.Contains(out, "interrupted") || strings.Contains(out, "time limit"):
		return "timeout", out, secs
	}
	return "error", out, secs
}

func runSolver(s solverSpec, file string, timeout time.Duration) (string, string, float64) {
	return runSolverCtx(context.Background(), s, file, timeout)
}

// cpuSem bounds the number of solver processes running at once.
var cpuSem chan bool

// Discharge runs the solvers on every obligation of the units.
func Discharge(units []*Unit, cfg SolverCfg) {
	os.MkdirAll(cfg.WorkDir, 0o755)
	par := cfg.Parallel
	if par <= 0 {
		par = 8
	}
	cpuSem = make(chan bool, par)
	type job struct {
		u *Unit
		o *Obligation
	}
	var jobs []job
	for _, u := range units {
		if u.VC == nil {
			continue
		}
		for _, o := range u.VC.obls {
			jobs = append(jobs, job{u, o})
		}
	}
	// stage 0: one incremental solver session per unit (facts asserted once, each goal under push/pop)
	var hard []job
	var mu sync.Mutex
	{
		var wg0 sync.WaitGroup
		for _, u := range units {
			if u.VC == nil || len(u.VC.obls) == 0 {
				continue
			}
			const chunk = 30
			for from := 0; from < len(u.VC.obls); from += chunk {
				to := from + chunk
				if to > len(u.VC.obls) {
					to = len(u.VC.obls)
				}
				wg0.Add(1)
				go func(u *Unit, from, to int) {
					defer wg0.Done()
					stage0(u, cfg, from, to)
				}(u, from, to)
			}
		}
		wg0.Wait()
	}
	// stage 1: one fast stand-alone attempt for what stage 0 did not discharge
	var wg sync.WaitGroup
	ch := make(chan job)
	for w := 0; w < par; w++ {
		wg.Add(1)
		go func() {
			defer wg.Done()
			for j := range ch {
				if !stage1(j.u, j.o, cfg) {
					mu.Lock()
					hard = append(hard, j)
					mu.Unlock()
				}
			}
		}()
	}
	for _, j := range jobs {
		if j.o.Status == "unsat" {
			continue
		}
		ch <- j
	}
	close(ch)
	wg.Wait()
	// stage 2: race several solver configurations on what is left
	var wg3 sync.WaitGroup
	for _, j := range hard {
		wg3.Add(1)
		go func(j job) {
			defer wg3.Done()
			stage2(j.u, j.o, cfg)
		}(j)
	}
	wg3.Wait()
	// second chance: an obligation that ended in timeout/unknown (no model) is retried once with five times the
	// budget and fewer competitors — a loaded machine must not turn a provable obligation into an alarm
	if !cfg.Thorough {
		var again []job
		for _, j := range hard {
			if cfg.Known[j.o.Name] {
				continue
			}
			if j.o.Status == "timeout" || j.o.Status == "unknown" || j.o.Status == "error" && j.o.Solver != "size-cap" {
				again = append(again, j)
			}
		}
		if len(again) > 0 && len(again) <= 96 {
			cfg2 := cfg
			cfg2.Timeout = cfg.Timeout * 5
			var wg4 sync.WaitGroup
			lim := make(chan bool, 4)
			// the retries of one run share a budget of ten minutes: on a tree where many obligations genuinely fail the run
			// must still end in reasonable time (what is not retried keeps its first verdict and is reported)
			deadline := time.Now().Add(10 * time.Minute)
			for _, j := range again {
				wg4.Add(1)
				lim <- true
				go func(j job) {
					defer wg4.Done()
					defer func() { <-lim }()
					if time.Now().After(deadline) {
						return
					}
					prev := j.o.Status
					j.o.Status = ""
					if _, err := os.Stat(j.o.File); err != nil {
						os.WriteFile(j.o.File, []byte(j.u.VC.script(j.o, false)), 0o644)
					}
					stage2(j.u, j.o, cfg2)
					if j.o.Status == "" {
						j.o.Status = prev
					}
				}(j)
			}
			wg4.Wait()
		}
	}
	if cfg.Thorough && cfg.Audit != nil {
		var pool []job
		for _, j := range jobs {
			if j.o.Status == "unsat" && (j.o.Solver == "z3new-inc" || j.o.Solver == "z3new") {
				pool = append(pool, j)
			}
		}
		rng := rand.New(rand.NewSource(int64(cfg.Seed) + 12345))
		rng.Shuffle(len(pool), func(a, b int) { pool[a], pool[b] = pool[b], pool[a] })
		if len(pool) > 160 {
			pool = pool[:160]
		}
		var wgA sync.WaitGroup
		var muA sync.Mutex
		for _, j := range pool {
			wgA.Add(1)
			go func(j job) {
				defer wgA.Done()
				script := j.u.VC.script(j.o, false)
				if len(script) > maxScriptBytes {
					return
				}
				file := filepath.Join(cfg.WorkDir, "audit_"+shortFile(j.o.Name)+".smt2")
				os.WriteFile(file, []byte(script), 0o644)
				defer os.Remove(file)
				confirmed, disagree := false, false
				for _, sv := range solvers {
					if sv.name != "z3" && sv.name != "cvc5" {
						continue
					}
					cpuSem <- true
					st, _, _ := runSolver(sv, file, 15*time.Second)
					<-cpuSem
					if st == "unsat" {
						confirmed = true
					}
					if st == "sat" {
						disagree = true
					}
				}
				muA.Lock()
				cfg.Audit.Sampled++
				switch {
				case disagree:
					cfg.Audit.Disagree++
					j.o.Status, j.o.Solver = "error", "audit"
					j.o.Model = "solver disagreement: discharged by " + j.o.Solver + " but sat in the cross-solver audit"
				case confirmed:
					cfg.Audit.Confirmed++
				default:
					cfg.Audit.Undecided++
				}
				muA.Unlock()
			}(j)
		}
		wgA.Wait()
	}
	// vacuity guard: the facts of each unit together with its normal-return condition must not be contradictory
	var wg2 sync.WaitGroup
	for _, u := range units {
		if u.VC == nil {
			continue
		}
		if u.ReachCond == "" {
			u.ReachCond = "true"
		}
		wg2.Add(1)
		go func(u *Unit) {
			defer wg2.Done()
			cpuSem <- true
			defer func() { <-cpuSem }()
			o := &Obligation{Name: u.VC.name + "/reach", Goal: "(not " + u.ReachCond + ")", NFacts: len(u.VC.facts), SkipFacts: map[int]bool{}}
			for _, ob := range u.VC.obls {
				if ob.Status != "unsat" {
					o.SkipFacts[ob.NFacts] = true // the goal of ob was appended to the facts right after ob was created
				}
			}
			file := oblFile(cfg.WorkDir, o)
			u.VC.skipUndischarged = true
			os.WriteFile(file, []byte(u.VC.script(o, false)), 0o644)
			u.VC.skipUndischarged = false
			st, _, _ := runSolver(solvers[0], file, 2*time.Second)
			switch st {
			case "unsat":
				u.Reach = "unsat"
			case "sat":
				u.Reach = "sat"
			default:
				u.Reach = "unknown"
			}
			os.Remove(file)
		}(u)
	}
	wg2.Wait()
}

func oblFile(workdir string, o *Obligation) string {
	n := sanitize(o.Name)
	if len(n) > 150 {
		h := fnv.New64a()
		h.Write([]byte(o.Name))
		n = fmt.Sprintf("%s_%x", n[:120], h.Sum64())
	}
	return filepath.Join(workdir, n+".smt2")
}

const maxScriptBytes = 48 << 20 // VC size cap: a larger script is an engine problem, never written to disk

func stage1(u *Unit, o *Obligation, cfg SolverCfg) bool {
	file := oblFile(cfg.WorkDir, o)
	script := u.VC.script(o, false)
	if len(script) > maxScriptBytes {
		o.Status, o.Solver = "error", "size-cap"
		o.Model = fmt.Sprintf("verification condition too large (%d MB): not sent to the solvers", len(script)>>20)
		return true
	}
	os.WriteFile(file, []byte(script), 0o644)
	o.File = file
	cpuSem <- true
	st, out, secs := runSolver(solvers[0], file, 2*time.Second)
	<-cpuSem
	o.Seconds += secs
	if st == "unsat" {
		o.Status, o.Solver = "unsat", solvers[0].name
		if !cfg.KeepFiles {
			os.Remove(file)
		}
		return true
	}
	if st == "sat" {
		o.Status, o.Solver = "sat", solvers[0].name
		fetchModel(u, o, solvers[0], cfg)
		return true
	}
	_ = out
	return false
}

func fetchModel(u *Unit, o *Obligation, s solverSpec, cfg SolverCfg) {
	mfile := strings.TrimSuffix(o.File, ".smt2") + ".model.smt2"
	os.WriteFile(mfile, []byte(u.VC.script(o, true)), 0o644)
	cpuSem <- true
	_, mout, _ := runSolver(s, mfile, cfg.Timeout)
	<-cpuSem
	o.Model = mout
	if !cfg.KeepFiles {
		os.Remove(mfile)
	}
}

func stage2(u *Unit, o *Obligation, cfg SolverCfg) {
	if cfg.Known[o.Name] && cfg.Timeout > 10*time.Second {
		cfg.Timeout = 10 * time.Second
	}
	file := o.File
	ctx, cancel := context.WithCancel(context.Background())
	defer cancel()
	type res struct {
		s      solverSpec
		status string
		out    string
		secs   float64
	}
	// portfolio: every solver on the exact script, plus (when the script multiplies by large constants) two solvers
	// on the multiplication-abstracted script (absmul.go); from the latter only `unsat` is a verdict.
	type attempt struct {
		s        solverSpec
		file     string
		abstract bool
	}
	var attempts []attempt
	for _, s := range solvers {
		attempts = append(attempts, attempt{s, file, false})
	}
	afile := ""
	if src, err := os.ReadFile(file); err == nil {
		if abs, ok := abstractMul(string(src)); ok {
			afile = strings.TrimSuffix(file, ".smt2") + ".absmul.smt2"
			os.WriteFile(afile, []byte(abs), 0o644)
			for _, s := range solvers {
				if s.name == "cvc5" || s.name == "z3new" {
					as := s
					as.name += "+absmul"
					attempts = append(attempts, attempt{as, afile, true})
				}
			}
		}
	}
	if afile != "" && !cfg.KeepFiles {
		defer os.Remove(afile)
	}
	// ground copy: every quantified ASSERTION is dropped (definitions stay). A weakening, so only `unsat` counts; it
	// rescues goals that need only ground facts but drown in irrelevant quantified context.
	gfile := ""
	if src, err := os.ReadFile(file); err == nil {
		var gb strings.Builder
		dropped := 0
		lines := strings.Split(string(src), "\n")
		for i, l := range lines {
			last := i >= len(lines)-4 // the negated goal and check-sat stay
			if !last && strings.HasPrefix(l, "(assert ") && (strings.Contains(l, "(forall ") || strings.Contains(l, "(exists ")) {
				dropped++
				continue
			}
			gb.WriteString(l)
			gb.WriteString("\n")
		}
		if dropped > 0 {
			gfile = strings.TrimSuffix(file, ".smt2") + ".ground.smt2"
			os.WriteFile(gfile, []byte(gb.String()), 0o644)
			gs := solvers[0]
			gs.name += "+ground"
			attempts = append(attempts, attempt{gs, gfile, true})
		}
	}
	if gfile != "" && !cfg.KeepFiles {
		defer os.Remove(gfile)
	}
	// a second weakened script: the quantified PROGRAM facts (loop invariants, pre/postconditions: quantified assertions
	// that mention a program symbol |...|) are dropped, the quantified prelude (definitions of spec functions, lemmas)
	// stays. Many safety and arithmetic goals need no quantified program fact, and without them the solvers cannot
	// diverge in instantiation. Dropping assumptions is sound: only `unsat` is a verdict.
	qfile := ""
	if src, err := os.ReadFile(file); err == nil {
		if q, ok := dropQuantifiedProgramFacts(string(src)); ok {
			qfile = strings.TrimSuffix(file, ".smt2") + ".noqpf.smt2"
			os.WriteFile(qfile, []byte(q), 0o644)
			for _, s := range solvers {
				if s.name == "z3new" || s.name == "cvc5" {
					qs := s
					qs.name += "+noqpf"
					attempts = append(attempts, attempt{qs, qfile, true})
				}
			}
		}
	}
	if qfile != "" && !cfg.KeepFiles {
		defer os.Remove(qfile)
	}
	rc := make(chan res, len(attempts))
	for _, a := range attempts {
		go func(a attempt) {
			cpuSem <- true
			defer func() { <-cpuSem }()
			if ctx.Err() != nil {
				rc <- res{a.s, "cancelled", "", 0}
				return
			}
			st, out, secs := runSolverCtx(ctx, a.s, a.file, cfg.Timeout)
			if a.abstract && st != "unsat" {
				st, out = "cancelled", "" // a weakened script proves nothing unless it is unsat
			}
			rc <- res{a.s, st, out, secs}
		}(a)
	}
	verdicts := map[string]string{}
	var satSolver *solverSpec
	var graceOnce sync.Once
	for range attempts {
		r := <-rc
		o.Seconds += r.secs
		verdicts[r.s.name] = r.status
		switch r.status {
		case "unsat":
			if o.Status != "unsat" {
				o.Status, o.Solver = "unsat", r.s.name
			}
			if !cfg.Thorough {
				cancel()
			} else {
				// thorough: the other solvers get a grace period to contradict the verdict, then they are stopped
				graceOnce.Do(func() { time.AfterFunc(thoroughGrace, cancel) })
			}
		case "sat":
			if o.Status != "unsat" && satSolver == nil {
				ss := r.s
				satSolver = &ss
				o.Status, o.Solver = "sat", r.s.name
			}
			if !cfg.Thorough {
				cancel()
			} else {
				graceOnce.Do(func() { time.AfterFunc(thoroughGrace, cancel) })
			}
		case "cancelled":
		default:
			if o.Status == "" {
				o.Status, o.Solver = r.status, r.s.name
				if r.status == "error" {
					o.Model = firstLines(r.out, 20)
				}
			} else if o.Status == "error" && r.status != "error" {
				o.Status, o.Solver = r.status, r.s.name
			}
		}
	}
	if cfg.Thorough {
		hasSat, hasUnsat := false, false
		for _, v := range verdicts {
			if v == "sat" {
				hasSat = true
			}
			if v == "unsat" {
				hasUnsat = true
			}
		}
		if hasSat && hasUnsat {
			o.Status = "error"
			o.Model = fmt.Sprintf("solver disagreement: %v", verdicts)
			return
		}
	}
	if o.Status == "sat" && satSolver != nil {
		fetchModel(u, o, *satSolver, cfg)
	}
	if o.Status == "unsat" && !cfg.KeepFiles {
		os.Remove(file)
	}
}

// stage0: incremental session with z3-new; only `unsat` answers are taken from it.
func stage0(u *Unit, cfg SolverCfg, from, to int) {
	file := filepath.Join(cfg.WorkDir, fmt.Sprintf("inc_%s_%d.smt2", shortFile(u.VC.name), from))
	isc := u.VC.incrementalScript(1500, from, to)
	if len(isc) > maxScriptBytes {
		return
	}
	os.WriteFile(file, []byte(isc), 0o644)
	defer func() {
		if !cfg.KeepFiles {
			os.Remove(file)
		}
	}()
	cpuSem <- true
	budget := time.Duration(to-from)*1600*time.Millisecond + 20*time.Second
	ctx, cancel := context.WithTimeout(context.Background(), budget)
	cmd := exec.CommandContext(ctx, "z3-new", file)
	var buf bytes.Buffer
	cmd.Stdout = &buf
	cmd.Stderr = &buf
	t0 := time.Now()
	_ = cmd.Run()
	cancel()
	<-cpuSem
	secs := time.Since(t0).Seconds()
	lines := strings.Split(buf.String(), "\n")
	cur := -1
	n := 0
	for _, l := range lines {
		l = strings.TrimSpace(l)
		if strings.HasPrefix(l, "@obl ") {
			fmt.Sscanf(l, "@obl %d", &cur)
			continue
		}
		if cur >= 0 && cur < len(u.VC.obls) {
			switch l {
			case "unsat":
				o := u.VC.obls[cur]
				o.Status, o.Solver = "unsat", "z3new-inc"
				n++
				cur = -1
			case "sat", "unknown":
				cur = -1
			}
		}
	}
	if n > 0 {
		per := secs / float64(to-from)
		for _, o := range u.VC.obls[from:to] {
			o.Seconds += per
		}
	}
}

// dropQuantifiedProgramFacts removes, from the top-level assertions, the conjuncts that contain a quantifier and mention
// a program symbol (|name|); an assertion `(and ...)` or `(=> c (and ...))` is split into its conjuncts first, so that the
// quantifier-free part of a clause survives. The final assertion (the negated goal) is kept. ok == false when nothing was dropped.
func dropQuantifiedProgramFacts(src string) (string, bool) {
	lines := strings.Split(src, "\n")
	last := -1
	for i, l := range lines {
		if strings.HasPrefix(l, "(assert ") {
			last = i
		}
	}
	isQPF := func(f string) bool {
		return strings.Contains(f, "|") && (strings.Contains(f, "(forall ") || strings.Contains(f, "(exists "))
	}
	var b strings.Builder
	dropped := false
	for i, l := range lines {
		if i != last && strings.HasPrefix(l, "(assert ") && strings.HasSuffix(l, ")") && isQPF(l) {
			body := strings.TrimSpace(l[len("(assert ") : len(l)-1])
			for _, c := range sexpConjuncts(body) {
				if isQPF(c) {
					dropped = true
					continue
				}
				b.WriteString("(assert " + c + ")\n")
			}
			continue
		}
		b.WriteString(l)
		b.WriteString("\n")
	}
	return b.String(), dropped
}

// sexpArgs splits "(op a1 a2 ...)" into op and its arguments (balanced parentheses, |quoted| symbols respected).
func sexpArgs(e string) (string, []string) {
	if len(e) < 2 || e[0] != '(' || e[len(e)-1] != ')' {
		return "", nil
	}
	in := e[1 : len(e)-1]
	var parts []string
	depth, start, quoted := 0, -1, false
	for i := 0; i < len(in); i++ {
		ch := in[i]
		if quoted {
			if ch == '|' {
				quoted = false
			}
			continue
		}
		switch ch {
		case '|':
			quoted = true
			if start < 0 {
				start = i
			}
		case '(':
			if start < 0 {
				start = i
			}
			depth++
		case ')':
			depth--
		case ' ', '\t':
			if depth == 0 && start >= 0 {
				parts = append(parts, in[start:i])
				start = -1
			}
		default:
			if start < 0 {
				start = i
			}
		}
	}
	if start >= 0 {
		parts = append(parts, in[start:])
	}
	if len(parts) == 0 {
		return "", nil
	}
	return parts[0], parts[1:]
}

// sexpConjuncts flattens (and ...) and distributes (=> c (and ...)) into a list of conjuncts.
func sexpConjuncts(e string) []string {
	op, args := sexpArgs(e)
	switch {
	case op == "and" && len(args) > 0:
		var out []string
		for _, a := range args {
			out = append(out, sexpConjuncts(a)...)
		}
		return out
	case op == "=>" && len(args) == 2:
		var out []string
		for _, c := range sexpConjuncts(args[1]) {
			out = append(out, "(=> "+args[0]+" "+c+")")
		}
		return out
	}
	return []string{e}
}
