package main

// Integer / boolean / float / string operations in both arithmetic modes.

import (
	"fmt"
	"go/constant"
	"go/token"
	"go/types"
	"math"
	"math/big"
	"strings"
)

// numInfo describes a scalar numeric type.
type numInfo struct {
	bits   int
	signed bool
	float  bool
	mathI  bool
}

func numOf(t types.Type) (numInfo, bool) {
	if _, ok := t.(*MathT); ok {
		return numInfo{mathI: true, signed: true, bits: 0}, true
	}
	b, ok := t.Underlying().(*types.Basic)
	if !ok {
		return numInfo{}, false
	}
	bits, signed, ok := intBits(b)
	if !ok {
		return numInfo{}, false
	}
	return numInfo{bits: bits, signed: signed, float: b.Info()&types.IsFloat != 0}, true
}

// wrap brings a mathematical integer term into the range of (bits,signed) — int mode only.
func (vc *VC) wrapFull(term string, bits int, signed bool) string {
	m := pow2(bits).String()
	if !signed {
		return "(mod " + term + " " + m + ")"
	}
	h := pow2(bits - 1).String()
	return "(- (mod (+ " + term + " " + h + ") " + m + ") " + h + ")"
}

// wrap1 is the cheap wrap for a sum/difference of two in-range values (at most one overflow).
func (vc *VC) wrap1(term string, bits int, signed bool) string {
	name := fmt.Sprintf("wrap1_%s%d", map[bool]string{true: "s", false: "u"}[signed], bits)
	if _, ok := vc.decls[name]; !ok {
		lo, hi := minMax(bits, signed)
		m := pow2(bits).String()
		vc.declare(name, fmt.Sprintf("(define-fun %s ((x Int)) Int (ite (> x %s) (- x %s) (ite (< x %s) (+ x %s) x)))",
			name, mathLit(hi), m, mathLit(lo), m))
	}
	return "(" + name + " " + term + ")"
}

func (vc *VC) inRange(term string, bits int, signed bool) string {
	lo, hi := minMax(bits, signed)
	return "(and (<= " + mathLit(lo) + " " + term + ") (<= " + term + " " + mathLit(hi) + "))"
}

// rangeFact returns the range constraint of a scalar integer value in int mode ("" if none needed).
func (vc *VC) rangeFact(v Val) string {
	if vc.mode != ModeInt {
		return ""
	}
	var parts []string
	cs := vc.flatTypes(v.T)
	for i, ct := range cs {
		if ct == nil {
			continue
		}
		if ni, ok := numOf(ct); ok && !ni.mathI {
			parts = append(parts, vc.inRange(v.C[i], ni.bits, ni.signed))
		}
	}
	if len(parts) == 0 {
		return ""
	}
	if len(parts) == 1 {
		return parts[0]
	}
	return "(and " + strings.Join(parts, " ") + ")"
}

// flatTypes gives, per component of flat(t), the scalar Go type if the component is an integer (else nil).
func (vc *VC) flatTypes(t types.Type) []types.Type {
	switch u := t.Underlying().(type) {
	case *types.Basic:
		if _, _, ok := intBits(u); ok {
			return []types.Type{t}
		}
		return []types.Type{nil}
	case *types.Slice:
		it := types.Typ[types.Int]
		return []types.Type{nil, it, it, it}
	case *types.Interface:
		return []types.Type{nil, nil}
	case *types.Struct:
		var out []types.Type
		for i := 0; i < u.NumFields(); i++ {
			out = append(out, vc.flatTypes(u.Field(i).Type())...)
		}
		return out
	case *types.Tuple:
		var out []types.Type
		for i := 0; i < u.Len(); i++ {
			out = append(out, vc.flatTypes(u.At(i).Type())...)
		}
		return out
	}
	n := len(vc.flat(t))
	return make([]types.Type, n)
}

func (vc *VC) constVal(c constant.Value, t types.Type) Val {
	if c == nil {
		return vc.zero(t)
	}
	switch u := t.Underlying().(type) {
	case *types.Basic:
		switch {
		case u.Info()&types.IsBoolean != 0:
			if constant.BoolVal(c) {
				return Val{T: t, C: []string{"true"}}
			}
			return Val{T: t, C: []string{"false"}}
		case u.Info()&types.IsInteger != 0:
			bits, _, _ := intBits(u)
			bi, ok := constBig(c)
			if !ok {
				panic("non-integer constant for integer type")
			}
			return Val{T: t, C: []string{vc.intLit(bi, bits)}}
		case u.Info()&types.IsFloat != 0:
			f, _ := constant.Float64Val(c)
			bits, _, _ := intBits(u)
			var pat uint64
			if bits == 32 {
				pat = uint64(math.Float32bits(float32(f)))
			} else {
				pat = math.Float64bits(f)
			}
			return Val{T: t, C: []string{vc.intLit(new(big.Int).SetUint64(pat), bits)}}
		case u.Info()&types.IsString != 0:
			return Val{T: t, C: []string{vc.strLit(constant.StringVal(c))}}
		}
	}
	panic(fmt.Sprintf("constVal: unsupported constant %v of type %v", c, t))
}

func constBig(c constant.Value) (*big.Int, bool) {
	c = constant.ToInt(c)
	if c.Kind() != constant.Int {
		return nil, false
	}
	if i, ok := constant.Int64Val(c); ok {
		return big.NewInt(i), true
	}
	bi, ok := new(big.Int).SetString(c.ExactString(), 10)
	return bi, ok
}

// strLit declares (once) a string literal constant with its length and characters.
func (vc *VC) strLit(s string) string {
	if s == "" {
		return "gs.empty"
	}
	if n, ok := vc.strlits[s]; ok {
		return n
	}
	name := fmt.Sprintf("strlit_%d", len(vc.strlits))
	vc.strlits[s] = name
	vc.declare(name, "(declare-const "+name+" Str)")
	vc.axiom("(= (gs.len " + name + ") " + vc.idx(int64(len(s))) + ")")
	if len(s) <= 64 {
		for i := 0; i < len(s); i++ {
			vc.axiom(fmt.Sprintf("(= (gs.at %s %s) %s)", name, vc.idx(int64(i)), vc.ilit(int64(s[i]), 8)))
		}
	}
	return name
}

func (vc *VC) boolTerm(v Val) string { return v.C[0] }

func parseIntLit(term string) (*big.Int, bool) {
	// recognises literals produced by intLit in either mode
	if strings.HasPrefix(term, "(_ bv") {
		var s string
		var w int
		if _, err := fmt.Sscanf(term, "(_ bv%s %d)", &s, &w); err == nil {
			bi, ok := new(big.Int).SetString(s, 10)
			return bi, ok
		}
		return nil, false
	}
	if strings.HasPrefix(term, "(- ") && strings.HasSuffix(term, ")") {
		bi, ok := new(big.Int).SetString(term[3:len(term)-1], 10)
		if ok {
			return bi.Neg(bi), true
		}
		return nil, false
	}
	bi, ok := new(big.Int).SetString(term, 10)
	return bi, ok
}

// convertNum converts a numeric scalar from type `from` to type `to`.
func (vc *VC) convertNum(x string, from, to types.Type) string {
	fi, ok1 := numOf(from)
	ti, ok2 := numOf(to)
	if !ok1 || !ok2 {
		panic(fmt.Sprintf("convertNum %v -> %v", from, to))
	}
	if fi.float || ti.float {
		if fi.float && ti.float {
			if fi.bits == ti.bits {
				return x
			}
			return vc.ufun(fmt.Sprintf("f%d_to_f%d", fi.bits, ti.bits), []string{vc.isort(fi.bits)}, vc.isort(ti.bits), x)
		}
		if ti.float {
			src := fmt.Sprintf("%s%d", map[bool]string{true: "s", false: "u"}[fi.signed], fi.bits)
			if fi.mathI {
				src = "m"
			}
			return vc.ufun(fmt.Sprintf("i%s_to_f%d", src, ti.bits), []string{vc.numSort(fi)}, vc.isort(ti.bits), x)
		}
		dst := fmt.Sprintf("%s%d", map[bool]string{true: "s", false: "u"}[ti.signed], ti.bits)
		r := vc.ufun(fmt.Sprintf("f%d_to_i%s", fi.bits, dst), []string{vc.isort(fi.bits)}, vc.numSort(ti), x)
		if vc.mode == ModeInt && !ti.mathI {
			vc.axiomOnce("(forall ((x Int)) (! " + vc.inRange("(f"+fmt.Sprint(fi.bits)+"_to_i"+dst+" x)", ti.bits, ti.signed) + " :pattern ((f" + fmt.Sprint(fi.bits) + "_to_i" + dst + " x))))")
		}
		return r
	}
	if vc.mode == ModeInt || fi.mathI || ti.mathI {
		if vc.mode == ModeBV {
			// math <-> bv conversions
			if fi.mathI && ti.mathI {
				return x
			}
			if ti.mathI {
				if fi.signed {
					// signed value of bitvector
					return fmt.Sprintf("(ite (bvslt %s (_ bv0 %d)) (- (bv2nat %s) %s) (bv2nat %s))", x, fi.bits, x, pow2(fi.bits).String(), x)
				}
				return "(bv2nat " + x + ")"
			}
			return fmt.Sprintf("((_ int2bv %d) %s)", ti.bits, x)
		}
		if ti.mathI {
			return x
		}
		if !fi.mathI {
			// in range already?
			flo, fhi := minMax(fi.bits, fi.signed)
			tlo, thi := minMax(ti.bits, ti.signed)
			if flo.Cmp(tlo) >= 0 && fhi.Cmp(thi) <= 0 {
				return x
			}
		}
		if lit, ok := parseIntLit(x); ok {
			m := pow2(ti.bits)
			r := new(big.Int).Mod(lit, m)
			if ti.signed && r.Cmp(pow2(ti.bits-1)) >= 0 {
				r.Sub(r, m)
			}
			return mathLit(r)
		}
		return vc.wrapFull(x, ti.bits, ti.signed)
	}
	// bv mode
	if lit, ok := parseIntLit(x); ok && strings.HasPrefix(x, "(_ bv") {
		// constant folding: the value of the literal (read in the source type) reduced to the target width
		if fi.signed && lit.Cmp(pow2(fi.bits-1)) >= 0 {
			lit = new(big.Int).Sub(lit, pow2(fi.bits))
		}
		return fmt.Sprintf("(_ bv%s %d)", new(big.Int).Mod(lit, pow2(ti.bits)).String(), ti.bits)
	}
	switch {
	case ti.bits == fi.bits:
		return x
	case ti.bits < fi.bits:
		return fmt.Sprintf("((_ extract %d 0) %s)", ti.bits-1, x)
	default:
		if fi.signed {
			return fmt.Sprintf("((_ sign_extend %d) %s)", ti.bits-fi.bits, x)
		}
		return fmt.Sprintf("((_ zero_extend %d) %s)", ti.bits-fi.bits, x)
	}
}

func (vc *VC) numSort(ni numInfo) string {
	if ni.mathI {
		return "Int"
	}
	return vc.isort(ni.bits)
}

// ufun declares (once) an uninterpreted function and returns its application.
func (vc *VC) ufun(name string, args []string, res string, actual ...string) string {
	if _, ok := vc.decls[name]; !ok {
		vc.declare(name, "(declare-fun "+name+" ("+strings.Join(args, " ")+") "+res+")")
	}
	if len(actual) == 0 {
		return name
	}
	return "(" + name + " " + strings.Join(actual, " ") + ")"
}

// binop computes x op y for scalar operands; t is the operand type (x's type), yT the type of y (shifts).
// specMath: in int mode, spec arithmetic is mathematical (no wrapping).
func (vc *VC) binop(op token.Token, x, y string, t, yT types.Type, specMath bool) (string, types.Type) {
	boolT := types.Typ[types.Bool]
	if isBool(t) {
		switch op {
		case token.LAND:
			return "(and " + x + " " + y + ")", boolT
		case token.LOR:
			return "(or " + x + " " + y + ")", boolT
		case token.EQL:
			return "(= " + x + " " + y + ")", boolT
		case token.NEQ:
			return "(not (= " + x + " " + y + "))", boolT
		}
		panic("bool binop " + op.String())
	}
	if isString(t) {
		switch op {
		case token.EQL:
			return "(= " + x + " " + y + ")", boolT
		case token.NEQ:
			return "(not (= " + x + " " + y + "))", boolT
		case token.ADD:
			return vc.strCat(x, y), t
		case token.LSS, token.LEQ, token.GTR, token.GEQ:
			c := vc.ufun("gs.cmp", []string{"Str", "Str"}, "Int", x, y)
			return "(" + map[token.Token]string{token.LSS: "<", token.LEQ: "<=", token.GTR: ">", token.GEQ: ">="}[op] + " " + c + " 0)", boolT
		}
		panic("string binop " + op.String())
	}
	ni, ok := numOf(t)
	if !ok {
		// reference-like single component
		switch op {
		case token.EQL:
			return "(= " + x + " " + y + ")", boolT
		case token.NEQ:
			return "(not (= " + x + " " + y + "))", boolT
		}
		panic(fmt.Sprintf("binop %v on %v", op, t))
	}
	if ni.float {
		return vc.floatBinop(op, x, y, t, ni)
	}
	if vc.mode == ModeBV && !ni.mathI {
		return vc.bvBinop(op, x, y, t, yT, ni)
	}
	return vc.intBinop(op, x, y, t, yT, ni, specMath)
}

func (vc *VC) floatBinop(op token.Token, x, y string, t types.Type, ni numInfo) (string, types.Type) {
	boolT := types.Typ[types.Bool]
	s := vc.isort(ni.bits)
	b := fmt.Sprint(ni.bits)
	// comparison of two literal bit patterns: decided here with the IEEE semantics (the comparison functions are
	// otherwise uninterpreted)
	if vc.mode == ModeInt {
		if xl, ok1 := parseIntLit(x); ok1 && xl.IsUint64() {
			if yl, ok2 := parseIntLit(y); ok2 && yl.IsUint64() {
				var fx, fy float64
				if ni.bits == 32 {
					fx, fy = float64(math.Float32frombits(uint32(xl.Uint64()))), float64(math.Float32frombits(uint32(yl.Uint64())))
				} else {
					fx, fy = math.Float64frombits(xl.Uint64()), math.Float64frombits(yl.Uint64())
				}
				tf := func(v bool) (string, types.Type) {
					if v {
						return "true", boolT
					}
					return "false", boolT
				}
				switch op {
				case token.LSS:
					return tf(fx < fy)
				case token.GTR:
					return tf(fx > fy)
				case token.LEQ:
					return tf(fx <= fy)
				case token.GEQ:
					return tf(fx >= fy)
				case token.EQL:
					return tf(fx == fy)
				case token.NEQ:
					return tf(fx != fy)
				}
			}
		}
	}
	switch op {
	case token.ADD, token.SUB, token.MUL, token.QUO:
		n := map[token.Token]string{token.ADD: "fadd", token.SUB: "fsub", token.MUL: "fmul", token.QUO: "fdiv"}[op] + b
		return vc.ufun(n, []string{s, s}, s, x, y), t
	case token.LSS:
		return vc.ufun("flt"+b, []string{s, s}, "Bool", x, y), boolT
	case token.GTR:
		return vc.ufun("flt"+b, []string{s, s}, "Bool", y, x), boolT
	case token.LEQ:
		return vc.ufun("fle"+b, []string{s, s}, "Bool", x, y), boolT
	case token.GEQ:
		return vc.ufun("fle"+b, []string{s, s}, "Bool", y, x), boolT
	case token.EQL:
		return vc.ufun("feq"+b, []string{s, s}, "Bool", x, y), boolT
	case token.NEQ:
		return "(not " + vc.ufun("feq"+b, []string{s, s}, "Bool", x, y) + ")", boolT
	}
	panic("float binop " + op.String())
}

func (vc *VC) bvBinop(op token.Token, x, y string, t, yT types.Type, ni numInfo) (string, types.Type) {
	boolT := types.Typ[types.Bool]
	sg := func(s, u string) string {
		if ni.signed {
			return s
		}
		return u
	}
	switch op {
	case token.ADD:
		return "(bvadd " + x + " " + y + ")", t
	case token.SUB:
		return "(bvsub " + x + " " + y + ")", t
	case token.MUL:
		return "(bvmul " + x + " " + y + ")", t
	case token.QUO:
		return "(" + sg("bvsdiv", "bvudiv") + " " + x + " " + y + ")", t
	case token.REM:
		return "(" + sg("bvsrem", "bvurem") + " " + x + " " + y + ")", t
	case token.AND:
		return "(bvand " + x + " " + y + ")", t
	case token.OR:
		return "(bvor " + x + " " + y + ")", t
	case token.XOR:
		return "(bvxor " + x + " " + y + ")", t
	case token.AND_NOT:
		return "(bvand " + x + " (bvnot " + y + "))", t
	case token.SHL, token.SHR:
		yi, _ := numOf(yT)
		cnt := y
		if lit, ok := parseIntLit(y); ok && lit.IsInt64() {
			k := lit.Int64()
			if k >= int64(ni.bits) {
				if op == token.SHR && ni.signed {
					return fmt.Sprintf("(bvashr %s %s)", x, vc.ilit(int64(ni.bits-1), ni.bits)), t
				}
				return vc.ilit(0, ni.bits), t
			}
			o := "bvshl"
			if op == token.SHR {
				o = sg("bvashr", "bvlshr")
			}
			if k == 0 {
				return x, t
			}
			return "(" + o + " " + x + " " + vc.ilit(k, ni.bits) + ")", t
		}
		var guard string
		if yi.bits > ni.bits {
			guard = fmt.Sprintf("(bvuge %s %s)", y, vc.ilit(int64(ni.bits), yi.bits))
			cnt = fmt.Sprintf("((_ extract %d 0) %s)", ni.bits-1, y)
		} else if yi.bits < ni.bits {
			cnt = fmt.Sprintf("((_ zero_extend %d) %s)", ni.bits-yi.bits, y)
		}
		var o string
		if op == token.SHL {
			o = "bvshl"
		} else {
			o = sg("bvashr", "bvlshr")
		}
		r := "(" + o + " " + x + " " + cnt + ")"
		if guard != "" {
			sat := vc.ilit(0, ni.bits)
			if op == token.SHR && ni.signed {
				sat = fmt.Sprintf("(bvashr %s %s)", x, vc.ilit(int64(ni.bits-1), ni.bits))
			}
			r = "(ite " + guard + " " + sat + " " + r + ")"
		}
		return r, t
	case token.EQL:
		return "(= " + x + " " + y + ")", boolT
	case token.NEQ:
		return "(not (= " + x + " " + y + "))", boolT
	case token.LSS:
		return "(" + sg("bvslt", "bvult") + " " + x + " " + y + ")", boolT
	case token.LEQ:
		return "(" + sg("bvsle", "bvule") + " " + x + " " + y + ")", boolT
	case token.GTR:
		return "(" + sg("bvsgt", "bvugt") + " " + x + " " + y + ")", boolT
	case token.GEQ:
		return "(" + sg("bvsge", "bvuge") + " " + x + " " + y + ")", boolT
	}
	panic("bv binop " + op.String())
}

func (vc *VC) intBinop(op token.Token, x, y string, t, yT types.Type, ni numInfo, specMath bool) (string, types.Type) {
	boolT := types.Typ[types.Bool]
	exact := specMath || ni.mathI
	rt := t
	w1 := func(s string) string {
		if exact {
			return s
		}
		return vc.wrap1(s, ni.bits, ni.signed)
	}
	wf := func(s string) string {
		if exact {
			return s
		}
		return vc.wrapFull(s, ni.bits, ni.signed)
	}
	ylit, yIsLit := parseIntLit(y)
	xlit, xIsLit := parseIntLit(x)
	switch op {
	case token.ADD:
		return w1("(+ " + x + " " + y + ")"), rt
	case token.SUB:
		return w1("(- " + x + " " + y + ")"), rt
	case token.MUL:
		return wf("(* " + x + " " + y + ")"), rt
	case token.QUO:
		if yIsLit && ylit.Sign() > 0 {
			if !ni.signed {
				return "(div " + x + " " + y + ")", rt
			}
			return "(ite (>= " + x + " 0) (div " + x + " " + y + ") (- (div (- " + x + ") " + y + ")))", rt
		}
		r := vc.tdiv(x, y)
		// MinInt / -1 overflow
		return wf(r), rt
	case token.REM:
		if yIsLit && ylit.Sign() > 0 {
			if !ni.signed {
				return "(mod " + x + " " + y + ")", rt
			}
			return "(ite (>= " + x + " 0) (mod " + x + " " + y + ") (- (mod (- " + x + ") " + y + ")))", rt
		}
		if vc.absRem {
			// `absrem` units: remainder by a non-constant divisor as an abstract function with its range facts only
			return vc.trem(x, y), rt
		}
		if !ni.signed {
			// unsigned operands are non-negative: Go's remainder is the SMT (Euclidean) mod for every divisor > 0
			// (divisor 0 panics in Go and never yields a value).  The range of the result is stated as a ground fact
			// (true of SMT mod for every y > 0): solvers do not derive it reliably for a non-constant divisor.
			m := "(mod " + x + " " + y + ")"
			if !specMath && !strings.Contains(m, "q_") && !strings.Contains(m, "p_") && !strings.Contains(m, "l_") {
				// (only for terms of executed code: contract expressions may mention bound variables)
				vc.axiom("(=> (> " + y + " 0) (and (<= 0 " + m + ") (< " + m + " " + y + ")))")
			}
			return m, rt
		}
		// signed remainder with a variable divisor: x - y*tdiv(x, y) in general; for a non-negative dividend and a positive
		// divisor (the common case: hash % len) that value is the SMT mod, stated first so that the linear case needs no
		// nonlinear reasoning (same value in both branches)
		m := "(mod " + x + " " + y + ")"
		if !specMath && !strings.Contains(m, "q_") && !strings.Contains(m, "p_") && !strings.Contains(m, "l_") {
			vc.axiom("(=> (> " + y + " 0) (and (<= 0 " + m + ") (< " + m + " " + y + ")))")
		}
		return "(ite (and (>= " + x + " 0) (> " + y + " 0)) " + m + " (- " + x + " (* " + y + " " + vc.tdiv(x, y) + ")))", rt
	case token.AND:
		if yIsLit {
			if k, ok := maskBits(ylit); ok {
				return "(mod " + x + " " + pow2(k).String() + ")", rt
			}
		}
		if xIsLit {
			if k, ok := maskBits(xlit); ok {
				return "(mod " + y + " " + pow2(k).String() + ")", rt
			}
		}
		return vc.bitUF("and", x, y, ni), rt
	case token.OR:
		return vc.bitUF("or", x, y, ni), rt
	case token.XOR:
		return vc.bitUF("xor", x, y, ni), rt
	case token.AND_NOT:
		return vc.bitUF("andnot", x, y, ni), rt
	case token.SHL:
		if yIsLit && ylit.IsInt64() && ylit.Int64() >= 0 && ylit.Int64() < 64 {
			return wf("(* " + x + " " + pow2(int(ylit.Int64())).String() + ")"), rt
		}
		return vc.bitUF("shl", x, y, ni), rt
	case token.SHR:
		if yIsLit && ylit.IsInt64() && ylit.Int64() >= 0 && ylit.Int64() < 64 {
			return "(div " + x + " " + pow2(int(ylit.Int64())).String() + ")", rt
		}
		return vc.bitUF("shr", x, y, ni), rt
	case token.EQL:
		return "(= " + x + " " + y + ")", boolT
	case token.NEQ:
		return "(not (= " + x + " " + y + "))", boolT
	case token.LSS:
		return "(< " + x + " " + y + ")", boolT
	case token.LEQ:
		return "(<= " + x + " " + y + ")", boolT
	case token.GTR:
		return "(> " + x + " " + y + ")", boolT
	case token.GEQ:
		return "(>= " + x + " " + y + ")", boolT
	}
	panic("int binop " + op.String())
}

func maskBits(v *big.Int) (int, bool) {
	// v == 2^k - 1 ?
	if v.Sign() <= 0 {
		return 0, false
	}
	p := new(big.Int).Add(v, big.NewInt(1))
	if p.BitLen()-1 > 0 && new(big.Int).And(p, v).Sign() == 0 {
		return p.BitLen() - 1, true
	}
	return 0, false
}

// trem: Go's remainder x % y with a non-constant divisor, as a function symbol with its definition (x - y*tdiv(x,y)) as a
// triggered axiom plus the derived range fact for a non-negative dividend and a positive divisor. Two occurrences with equal
// operands are then equal by congruence (no nonlinear reasoning needed), and index-in-range facts follow from the range axiom.
func (vc *VC) trem(x, y string) string {
	name := "trem"
	if _, ok := vc.decls[name]; !ok {
		vc.tdiv("0", "1")
		vc.declare(name, "(declare-fun trem (Int Int) Int)")
		if !vc.absRem {
			vc.axiom("(forall ((a Int) (b Int)) (! (= (trem a b) (- a (* b (tdiv a b)))) :pattern ((trem a b))))")
		} else {
			// `absrem` units: the remainder is left abstract (only consequences of its definition that need no
			// multiplication are stated); whatever is proved this way also holds of the real remainder
			vc.axiom("(forall ((a Int) (b Int)) (! (=> (and (>= a 0) (> b a)) (= (trem a b) a)) :pattern ((trem a b))))")
		}
		vc.axiom("(forall ((a Int) (b Int)) (! (=> (and (>= a 0) (> b 0)) (and (<= 0 (trem a b)) (< (trem a b) b))) :pattern ((trem a b))))")
	}
	return "(trem " + x + " " + y + ")"
}

func (vc *VC) tdiv(x, y string) string {
	name := "tdiv"
	if _, ok := vc.decls[name]; !ok {
		vc.declare(name, "(define-fun tdiv ((a Int) (b Int)) Int (ite (>= a 0) (ite (> b 0) (div a b) (- (div a (- b)))) (ite (> b 0) (- (div (- a) b)) (div (- a) (- b)))))")
	}
	return "(tdiv " + x + " " + y + ")"
}

// bitUF: uninterpreted bit operation in int mode, with a range axiom.
func (vc *VC) bitUF(op, x, y string, ni numInfo) string {
	tag := "m"
	if !ni.mathI {
		tag = fmt.Sprintf("%s%d", map[bool]string{true: "s", false: "u"}[ni.signed], ni.bits)
	}
	name := "bit_" + op + "_" + tag
	if _, ok := vc.decls[name]; !ok {
		vc.declare(name, "(declare-fun "+name+" (Int Int) Int)")
		if !ni.mathI {
			vc.axiom("(forall ((a Int) (b Int)) (! " + vc.inRange("("+name+" a b)", ni.bits, ni.signed) + " :pattern ((" + name + " a b))))")
		}
		if op == "or" {
			// a|b is zero exactly when both operands are zero (holds for every width, signed or unsigned)
			vc.axiom("(forall ((a Int) (b Int)) (! (= (= (" + name + " a b) 0) (and (= a 0) (= b 0))) :pattern ((" + name + " a b))))")
		}
		if op == "and" {
			vc.axiom("(forall ((a Int) (b Int)) (! (=> (>= b 0) (and (<= 0 (" + name + " a b)) (<= (" + name + " a b) b))) :pattern ((" + name + " a b))))")
			vc.axiom("(forall ((a Int) (b Int)) (! (=> (>= a 0) (and (<= 0 (" + name + " a b)) (<= (" + name + " a b) a))) :pattern ((" + name + " a b))))")
		}
	}
	return "(" + name + " " + x + " " + y + ")"
}

func (vc *VC) unop(op token.Token, x string, t types.Type, specMath bool) string {
	switch op {
	case token.NOT:
		return "(not " + x + ")"
	case token.SUB:
		ni, _ := numOf(t)
		if ni.float {
			return vc.ufun(fmt.Sprintf("fneg%d", ni.bits), []string{vc.isort(ni.bits)}, vc.isort(ni.bits), x)
		}
		if vc.mode == ModeBV && !ni.mathI {
			return "(bvneg " + x + ")"
		}
		if specMath || ni.mathI {
			return "(- " + x + ")"
		}
		if lit, ok := parseIntLit(x); ok {
			return mathLit(new(big.Int).Neg(lit))
		}
		return vc.wrap1("(- "+x+")", ni.bits, ni.signed)
	case token.XOR:
		ni, _ := numOf(t)
		if vc.mode == ModeBV && !ni.mathI {
			return "(bvnot " + x + ")"
		}
		if ni.signed || ni.mathI {
			return "(- (- " + x + ") 1)"
		}
		_, hi := minMax(ni.bits, false)
		return "(- " + hi.String() + " " + x + ")"
	}
	panic("unop " + op.String())
}

func (vc *VC) strCat(x, y string) string {
	if _, ok := vc.decls["gs.cat"]; !ok {
		vc.declare("gs.cat", "(declare-fun gs.cat (Str Str) Str)")
		i := vc.idxSort()
		add := func(a, b string) string {
			if vc.mode == ModeBV {
				return "(bvadd " + a + " " + b + ")"
			}
			return "(+ " + a + " " + b + ")"
		}
		lt := func(a, b string) string {
			if vc.mode == ModeBV {
				return "(bvslt " + a + " " + b + ")"
			}
			return "(< " + a + " " + b + ")"
		}
		sub := func(a, b string) string {
			if vc.mode == ModeBV {
				return "(bvsub " + a + " " + b + ")"
			}
			return "(- " + a + " " + b + ")"
		}
		vc.axiom("(forall ((a Str) (b Str)) (! (= (gs.len (gs.cat a b)) " + add("(gs.len a)", "(gs.len b)") + ") :pattern ((gs.cat a b))))")
		vc.axiom("(forall ((a Str) (b Str) (i " + i + ")) (! (= (gs.at (gs.cat a b) i) (ite " + lt("i", "(gs.len a)") + " (gs.at a i) (gs.at b " + sub("i", "(gs.len a)") + "))) :pattern ((gs.at (gs.cat a b) i))))")
	}
	return "(gs.cat " + x + " " + y + ")"
}

// mode-aware helpers on Go `int`-typed terms
func (vc *VC) iadd(a, b string) string {
	if vc.mode == ModeBV {
		return "(bvadd " + a + " " + b + ")"
	}
	if a == "0" {
		return b
	}
	if b == "0" {
		return a
	}
	return "(+ " + a + " " + b + ")"
}
// eidx: absolute index of element i of a slice with offset off. In int mode it is written with the uninterpreted
// function gidx (axiom: gidx(a,b) = a+b) instead of `(+ off i)`: arithmetic is interpreted and normalised by the
// solvers, so a slice element inside a quantifier body gave no usable e-matching pattern and facts like
// `forall i :: P(s[i])` about a slice read from the heap were instantiated only by luck (model-based instantiation).
// `(gidx off i)` is matched syntactically, modulo the equalities known about off. Used uniformly (also for a literal
// offset 0) so that program terms and specification terms have the same shape.
func (vc *VC) eidx(off, i string) string {
	if vc.mode == ModeBV {
		if !vc.sliceUF {
			return vc.iadd(off, i)
		}
		// unit option `sliceidx uf`: the same device in bv mode (quantified invariants over slice elements in
		// bit-level units, e.g. word-wise loops, then also get arithmetic-free patterns)
		if _, ok := vc.decls["gidx"]; !ok {
			s := vc.idxSort()
			vc.declare("gidx", "(declare-fun gidx ("+s+" "+s+") "+s+")")
			vc.axiom("(forall ((a " + s + ") (b " + s + ")) (! (= (gidx a b) (bvadd a b)) :pattern ((gidx a b))))")
		}
		return "(gidx " + off + " " + i + ")"
	}
	if _, ok := vc.decls["gidx"]; !ok {
		vc.declare("gidx", "(declare-fun gidx (Int Int) Int)")
		vc.axiom("(forall ((a Int) (b Int)) (! (= (gidx a b) (+ a b)) :pattern ((gidx a b))))")
	}
	return "(gidx " + off + " " + i + ")"
}
func (vc *VC) isub(a, b string) string {
	if vc.mode == ModeBV {
		return "(bvsub " + a + " " + b + ")"
	}
	if b == "0" {
		return a
	}
	return "(- " + a + " " + b + ")"
}
func (vc *VC) ilt(a, b string) string {
	if vc.mode == ModeBV {
		return "(bvslt " + a + " " + b + ")"
	}
	return "(< " + a + " " + b + ")"
}
func (vc *VC) ile(a, b string) string {
	if vc.mode == ModeBV {
		return "(bvsle " + a + " " + b + ")"
	}
	return "(<= " + a + " " + b + ")"
}
func (vc *VC) imul(a, b string) string {
	if vc.mode == ModeBV {
		return "(bvmul " + a + " " + b + ")"
	}
	return "(* " + a + " " + b + ")"
}
