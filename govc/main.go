package main

import (
	"flag"
	"fmt"
	"os"
	"sort"
	"strings"
	"time"
)

var repoRoot = "/repo"

var allPatterns = []string{"./io", "./util/...", "./lang/...", "./net/oneway", "./logsink/zip"}

func main() {
	if len(os.Args) < 2 {
		fmt.Fprintln(os.Stderr, "usage: govc <verify|check|replay|list|selftest> ...")
		os.Exit(2)
	}
	switch os.Args[1] {
	case "verify":
		cmdVerify(os.Args[2:])
	case "check":
		cmdCheck(os.Args[2:])
	case "list":
		cmdList(os.Args[2:])
	case "genrt":
		cmdGenRT(os.Args[2:])
	case "genlocks":
		cmdGenLocks(os.Args[2:])
	case "replay":
		cmdReplay(os.Args[2:])
	default:
		fmt.Fprintln(os.Stderr, "unknown command", os.Args[1])
		os.Exit(2)
	}
}

// cmdVerify: developer command — verify named functions (or all with a property tag) and print a table.
func cmdVerify(args []string) {
	fs := flag.NewFlagSet("verify", flag.ExitOnError)
	fnames := fs.String("f", "", "comma-separated function keys (pkg.Recv.Name); empty = all")
	prop := fs.String("p", "", "property id filter")
	pkgs := fs.String("pkgs", "", "comma-separated package patterns (default: all target packages)")
	timeout := fs.Int("t", 10, "solver timeout (s)")
	keep := fs.Bool("keep", false, "keep smt files")
	dump := fs.Bool("v", false, "verbose: print failed obligations' goals")
	root := fs.String("root", repoRoot, "repository root")
	lockType := fs.String("locktype", "", "generate lock-discipline units for this type (pkg.Type)")
	times := fs.Bool("times", false, "print solver and time of every discharged obligation too")
	fs.Parse(args)
	pats := allPatterns
	if *pkgs != "" {
		pats = strings.Split(*pkgs, ",")
	}
	t0 := time.Now()
	prog, err := LoadProgram(*root, pats, nil)
	if err != nil {
		fmt.Fprintln(os.Stderr, "load:", err)
		os.Exit(2)
	}
	fmt.Fprintf(os.Stderr, "loaded in %.1fs; %d contracts\n", time.Since(t0).Seconds(), len(prog.cs.Funcs))
	var units []*Unit
	want := map[string]bool{}
	for _, f := range strings.Split(*fnames, ",") {
		if f != "" {
			want[f] = true
		}
	}
	for _, k := range prog.contractKeysSorted() {
		fc := prog.cs.Funcs[k]
		if fc.Extern || fc.noUnit() {
			continue
		}
		if len(want) > 0 && !want[k] {
			continue
		}
		if *prop != "" && !hasProp(fc.Props, *prop) {
			continue
		}
		if len(want) == 0 && prog.findFunc(k) == nil {
			continue // package not loaded in this developer run
		}
		units = append(units, prog.GenFunc(k, GenOpts{}))
	}
	if *lockType != "" {
		units = nil
		tc := prog.cs.Types[*lockType]
		if tc == nil {
			fmt.Fprintln(os.Stderr, "no type contract", *lockType)
			os.Exit(2)
		}
		for _, mk := range prog.exportedMethods(tc) {
			if len(want) > 0 && !want[mk] {
				continue
			}
			units = append(units, prog.GenFunc(mk, GenOpts{LockOnly: true, TC: tc}))
		}
	}
	for _, a := range prog.cs.Axioms {
		if !a.Lemma || *lockType != "" {
			continue
		}
		k := "lemma:" + a.Pkg + "." + a.Name
		if len(want) > 0 && !want[k] {
			continue
		}
		if *prop != "" && !hasProp(a.Props, *prop) {
			continue
		}
		if len(want) == 0 && prog.typesPkgByName(a.Pkg) == nil {
			continue
		}
		units = append(units, prog.GenLemma(a))
	}
	fmt.Fprintf(os.Stderr, "generated %d units in %.1fs\n", len(units), time.Since(t0).Seconds())
	for _, e := range prog.specErrors {
		fmt.Println("SPEC-ERROR:", e)
	}
	cfg := SolverCfg{WorkDir: fmt.Sprintf("/tmp/govc-work/%d", os.Getpid()), Timeout: time.Duration(*timeout) * time.Second, Parallel: 16, KeepFiles: *keep}
	Discharge(units, cfg)
	if !*keep {
		defer os.RemoveAll(cfg.WorkDir)
	}
	nob, nok := 0, 0
	for _, u := range units {
		if u.Err != nil {
			fmt.Printf("ERROR %s: %v\n", u.Key, u.Err)
			continue
		}
		for _, w := range u.Unsupported {
			fmt.Printf("UNSUPPORTED %s: %s\n", u.Key, w)
		}
		for _, w := range u.VC.warnings {
			fmt.Printf("WARN %s: %s\n", u.Key, w)
		}
		ok := 0
		for _, o := range u.VC.obls {
			nob++
			if o.Status == "unsat" {
				ok++
				nok++
			}
		}
		fmt.Printf("%-60s %d/%d reach=%s\n", u.Key, ok, len(u.VC.obls), u.Reach)
		for _, o := range u.VC.obls {
			if *times && o.Status == "unsat" {
				fmt.Printf("   ok   %-50s %-8s %s %.1fs\n", o.Name, o.Status, o.Solver, o.Seconds)
			}
			if o.Status != "unsat" {
				fmt.Printf("   FAIL %-50s %-8s %s %.1fs  %s:%d  %s\n", o.Name, o.Status, o.Solver, o.Seconds, o.Pos.Filename, o.Pos.Line, o.Desc)
				if *dump {
					fmt.Printf("        goal: %s\n        file: %s\n", o.Goal, o.File)
					if o.Model != "" {
						fmt.Printf("        model: %s\n", firstLines(o.Model, 40))
					}
				}
			}
		}
		if *dump {
			var as []string
			for a := range u.VC.assumptions {
				as = append(as, a)
			}
			sort.Strings(as)
			for _, a := range as {
				fmt.Printf("   assume: %s\n", a)
			}
		}
	}
	fmt.Printf("TOTAL %d/%d discharged in %.1fs\n", nok, nob, time.Since(t0).Seconds())
}

func firstLines(s string, n int) string {
	ls := strings.Split(s, "\n")
	if len(ls) > n {
		ls = ls[:n]
	}
	return strings.Join(ls, "\n")
}

func hasProp(ps []string, p string) bool {
	for _, x := range ps {
		if x == p {
			return true
		}
	}
	return false
}

func cmdList(args []string)   {}
