package main

// `govc check -p Cnn -tier quick|thorough`: the registered check of one property.

import (
	"encoding/json"
	"flag"
	"fmt"
	"go/types"
	"hash/fnv"
	"os"
	"path/filepath"
	"sort"
	"strings"
	"time"
)

type KnownFinding struct {
	Property   string `json:"property"`
	Obligation string `json:"obligation"`
	What       string `json:"what"`
	Witness    string `json:"witness,omitempty"`
}

type FixedFinding struct {
	Property string `json:"property"`
	Commit   string `json:"commit"`
	What     string `json:"what"`
}

type KnownFindings struct {
	Findings []KnownFinding `json:"findings"`
	Fixed    []FixedFinding `json:"fixed"`
}

func loadKnown(path string) *KnownFindings {
	kf := &KnownFindings{}
	b, err := os.ReadFile(path)
	if err != nil {
		return kf
	}
	json.Unmarshal(b, kf)
	return kf
}

var verifRoot = "/verif"

func cmdCheck(args []string) {
	fs := flag.NewFlagSet("check", flag.ExitOnError)
	prop := fs.String("p", "", "property id")
	tier := fs.String("tier", "quick", "quick|thorough")
	root := fs.String("root", repoRoot, "repository root")
	emit := fs.String("emit-known", "", "developer aid: write the undischarged obligations as candidate known-finding entries to this file")
	fs.Parse(args)
	emitKnownPath = *emit
	if *prop == "" {
		fmt.Fprintln(os.Stderr, "check: -p required")
		os.Exit(2)
	}
	if t := os.Getenv("VERIF_TIER"); t == "quick" || t == "thorough" {
		*tier = t
	}
	seed := 0
	fmt.Sscan(os.Getenv("VERIF_SEED"), &seed)
	os.Exit(runCheck(*prop, *tier, *root, seed))
}

func runCheck(prop, tier, root string, seed int) int {
	t0 := time.Now()
	// packages to load: those whose contract files carry this property tag
	cs0, err0 := LoadContracts(root)
	if err0 != nil {
		fmt.Printf("UNDECIDED property=%s: contract files do not parse: %v\n", prop, err0)
		return 2
	}
	dirs := map[string]bool{}
	for _, fc := range cs0.Funcs {
		if hasProp(fc.Props, prop) && !fc.Extern {
			dirs[filepath.Dir(fc.File)] = true
		}
	}
	for _, a := range cs0.Axioms {
		if a.Lemma && hasProp(a.Props, prop) {
			dirs[filepath.Dir(a.File)] = true
		}
	}
	for _, tc := range cs0.Types {
		if hasProp(tc.Props, prop) {
			dirs[filepath.Dir(tc.File)] = true
		}
	}
	var pats []string
	for d := range dirs {
		rel, _ := filepath.Rel(root, d)
		pats = append(pats, "./"+rel)
	}
	for f, more := range cs0.AlsoLoad {
		if dirs[filepath.Dir(f)] {
			for _, m := range more {
				if !dirs[filepath.Join(root, m)] {
					dirs[filepath.Join(root, m)] = true
					pats = append(pats, "./"+filepath.Clean(m))
				}
			}
		}
	}
	sort.Strings(pats)
	if len(pats) == 0 {
		fmt.Printf("UNDECIDED property=%s: no contracts carry this property tag (zero obligations would be vacuous)\n", prop)
		return 2
	}
	prog, err := LoadProgram(root, pats, nil)
	if err != nil {
		fmt.Printf("UNDECIDED property=%s: cannot load the repository with -tags=verif: %v\n", prop, err)
		return 2
	}
	var units []*Unit
	for _, k := range prog.contractKeysSorted() {
		fc := prog.cs.Funcs[k]
		if fc.Extern || fc.noUnit() || !hasProp(fc.Props, prop) {
			continue
		}
		units = append(units, prog.GenFunc(k, GenOpts{}))
	}
	for _, a := range prog.cs.Axioms {
		if a.Lemma && hasProp(a.Props, prop) {
			units = append(units, prog.GenLemma(a))
		}
	}
	// lock-discipline units: every exported method of every type whose contract is tagged with this property
	var tkeys []string
	for k := range prog.cs.Types {
		tkeys = append(tkeys, k)
	}
	sort.Strings(tkeys)
	for _, k := range tkeys {
		tc := prog.cs.Types[k]
		if !hasProp(tc.Props, prop) || tc.Lock == "" {
			continue
		}
		for _, mk := range prog.exportedMethods(tc) {
			units = append(units, prog.GenFunc(mk, GenOpts{LockOnly: true, TC: tc}))
		}
	}
	if len(units) == 0 {
		fmt.Printf("UNDECIDED property=%s: no contracts carry this property tag (zero obligations would be vacuous)\n", prop)
		return 2
	}
	work := filepath.Join(verifRoot, "work", prop)
	os.RemoveAll(work)
	os.MkdirAll(work, 0o755)
	cfg := SolverCfg{WorkDir: work, Timeout: 40 * time.Second, Parallel: 16, Thorough: tier == "thorough", KeepFiles: false}
	if tier == "thorough" {
		cfg.Timeout = 120 * time.Second
		cfg.Seed = seed
		cfg.Audit = &AuditResult{}
	}
	kf := loadKnown(filepath.Join(verifRoot, "known_findings.json"))
	known := map[string]KnownFinding{}
	cfg.Known = map[string]bool{}
	for _, f := range kf.Findings {
		if f.Property == prop {
			known[f.Obligation] = f
			cfg.Known[f.Obligation] = true
		}
	}
	Discharge(units, cfg)
	engineErr := 0
	specViol := 0
	os.RemoveAll(filepath.Join(verifRoot, "work", "replay", prop))
	os.MkdirAll(filepath.Join(verifRoot, "work", "replay", prop), 0o755)
	for i, e := range dedup(prog.specErrors) {
		// on the unchanged tree every contract clause evaluates; a clause that no longer does (a loop, field or
		// parameter it mentions is gone) cannot be established any more
		name := fmt.Sprintf("contract-clause-not-applicable#%d", i+1)
		rpath := filepath.Join(verifRoot, "work", "replay", prop, name+".json")
		rb, _ := json.MarshalIndent(map[string]interface{}{"property": prop, "obligation": name, "note": "a contract clause that is checked on the unchanged tree cannot be evaluated against this tree: " + e, "confirmed_on_real_code": false}, "", " ")
		os.WriteFile(rpath, rb, 0o644)
		fmt.Printf("VIOLATION property=%s replay=%s obligation=%s (%s) no-failing-input-found\n", prop, rpath, name, e)
		specViol++
	}
	nObl, nOK, nKnown, nViol := 0, 0, 0, 0
	nViol += specViol
	nObl += specViol
	byBackend := map[string]int{}
	solverS := 0.0
	var fns, inlined, unsup, samples, violNames []string
	assum := map[string]bool{}
	knownSeen := map[string]bool{}
	var replayDir = filepath.Join(verifRoot, "work", "replay", prop)
	os.MkdirAll(replayDir, 0o755)
	vacuous := 0
	loops := 0
	for _, u := range units {
		if u.Err != nil {
			// a unit under contract that can no longer be generated (function gone, construct outside the subset):
			// its obligations were discharged on the unchanged tree and are undecided now
			name := u.Key + "/unit-cannot-be-verified"
			if kfd, isKnown := known[name]; isKnown {
				knownSeen[name] = true
				nKnown++
				fmt.Printf("KNOWN-FINDING: property=%s %s — %s\n", prop, name, kfd.What)
				continue
			}
			nObl++
			nViol++
			violNames = append(violNames, name)
			rpath := filepath.Join(replayDir, shortFile(name)+".json")
			rb, _ := json.MarshalIndent(map[string]interface{}{"property": prop, "obligation": name, "note": "the unit's obligations were discharged on the unchanged tree; on this tree the unit cannot be generated: " + u.Err.Error(), "confirmed_on_real_code": false}, "", " ")
			os.WriteFile(rpath, rb, 0o644)
			fmt.Printf("VIOLATION property=%s replay=%s obligation=%s (%v) no-failing-input-found\n", prop, rpath, name, u.Err)
			continue
		}
		fns = append(fns, u.VC.name)
		loops += u.Loops
		for k := range u.VC.inlined {
			inlined = append(inlined, k)
		}
		for a := range u.VC.assumptions {
			assum[a] = true
		}
		for _, w := range u.Unsupported {
			unsup = append(unsup, u.Key+": "+w)
		}
		allOK := true
		for _, o := range u.VC.obls {
			if o.Status != "unsat" {
				allOK = false
			}
		}
		if u.Reach == "unsat" && allOK {
			fmt.Printf("ENGINE-ERROR property=%s %s: preconditions/assumptions are contradictory (vacuous unit)\n", prop, u.Key)
			vacuous++
			engineErr++
		}
		for _, o := range u.VC.obls {
			solverS += o.Seconds
			if kfd, isKnown := known[o.Name]; isKnown {
				knownSeen[o.Name] = true
				if o.Status == "unsat" {
					// a known finding that verifies: either repaired or the engine went vacuous — make it visible
					fmt.Printf("NOTE property=%s known finding %s now discharges (repaired? remove it from known_findings.json)\n", prop, o.Name)
					nObl++
					nOK++
					byBackend[o.Solver]++
					continue
				}
				nKnown++
				fmt.Printf("KNOWN-FINDING: property=%s %s — %s\n", prop, o.Name, kfd.What)
				continue
			}
			nObl++
			if o.Status == "unsat" {
				nOK++
				byBackend[o.Solver]++
				if len(samples) < 6 && (o.Class == "post" || o.Class == "assert" || o.Class == "lemma" || o.Class == "lock") {
					samples = append(samples, fmt.Sprintf("%s [%s] %s", o.Name, o.Class, o.Desc))
				}
				continue
			}
			nViol++
			violNames = append(violNames, o.Name)
			if emitKnownPath != "" {
				emitKnown = append(emitKnown, KnownFinding{Property: prop, Obligation: o.Name, What: fmt.Sprintf("%s at %s:%d", o.Desc, strings.TrimPrefix(o.Pos.Filename, root+"/"), o.Pos.Line)})
			}
			rp := writeReplay(prog, replayDir, prop, u, o)
			suffix := ""
			if !rp.Confirmed {
				suffix = " no-failing-input-found"
			}
			fmt.Printf("VIOLATION property=%s replay=%s obligation=%s status=%s at %s:%d (%s)%s\n", prop, rp.Path, o.Name, o.Status, o.Pos.Filename, o.Pos.Line, o.Desc, suffix)
		}
	}
	// stability report: obligations that needed more than a fifth of the timeout are candidates for flicker
	type slowO struct {
		n string
		s float64
		v string
	}
	var slow []slowO
	for _, u := range units {
		if u.VC == nil {
			continue
		}
		for _, o := range u.VC.obls {
			if o.Status == "unsat" && o.Seconds > 8 {
				slow = append(slow, slowO{o.Name, o.Seconds, o.Solver})
			}
		}
	}
	sort.Slice(slow, func(i, j int) bool { return slow[i].s > slow[j].s })
	var slowNames []string
	for i, so := range slow {
		if i < 12 {
			fmt.Printf("NOTE property=%s slow obligation %.1fs (%s) %s\n", prop, so.s, so.v, so.n)
		}
		slowNames = append(slowNames, fmt.Sprintf("%s %.1fs %s", so.n, so.s, so.v))
	}
	for name, f := range known {
		if !knownSeen[name] {
			fmt.Printf("NOTE property=%s known finding %s (%s) no longer corresponds to any obligation\n", prop, name, f.What)
		}
	}
	// bounded stand-ins (string-heavy clauses): run on the real code, labelled bounded, never counted as proved
	standins := runStandins(prop, root, seed)
	for _, sr := range standins {
		name := "standin:" + sr.Name
		if sr.Status == "ok" {
			fmt.Printf("BOUNDED property=%s %s cases=%s bound=%s\n", prop, name, sr.Cases, sr.Bound)
			continue
		}
		if kfd, isKnown := known[name]; isKnown {
			knownSeen[name] = true
			nKnown++
			fmt.Printf("KNOWN-FINDING: property=%s %s — %s\n", prop, name, kfd.What)
			continue
		}
		nViol++
		violNames = append(violNames, name)
		rpath := filepath.Join(replayDir, shortFile(name)+".json")
		rb, _ := json.MarshalIndent(map[string]interface{}{"property": prop, "obligation": name, "bounded_standin": sr.File, "failures": sr.Fails, "confirmed_on_real_code": true,
			"note": "bounded stand-in failed on the real code; rerun: place the file as an in-package test (see its STANDIN-DIR line) and go test -run TestStandin"}, "", " ")
		os.WriteFile(rpath, rb, 0o644)
		w := ""
		if len(sr.Fails) > 0 {
			w = sr.Fails[0]
		}
		fmt.Printf("VIOLATION property=%s replay=%s obligation=%s (bounded stand-in fails on the real code: %s)\n", prop, rpath, name, firstLines(w, 2))
	}
	sort.Strings(fns)
	sort.Strings(inlined)
	inlined = dedup(inlined)
	var as []string
	for a := range assum {
		as = append(as, a)
	}
	sort.Strings(as)
	trusted := []string{
		"go/packages + go/types + go/ssa (x/tools v0.29.0, NaiveForm) as a faithful rendering of Go semantics",
		"govc VC generator and memory model (Burstall-Bornat field heaps, element heaps per type, allocation watermark, frame rules of DESIGN.md §2.3)",
		"SMT solvers z3 5.1.0 (z3-new), z3 4.8.12, cvc5 1.0.3",
		"sizes of slices/backing arrays and stream lengths below 2^61 (physical-memory bound, part of slice well-formedness)",
	}
	level := levelOf(prop)
	ev := map[string]interface{}{
		"property_id": prop,
		"tier":        tier,
		"seed":        seed,
		"level":       level,
		"wall_s":      time.Since(t0).Seconds(),
		"violations":  nViol,
		"assumptions": as,
		"coverage": map[string]interface{}{
			"obligations":          nObl,
			"discharged":           nOK,
			"checker_cmd":          fmt.Sprintf("bin/govc check -p %s -tier %s", prop, tier),
			"trusted_base":         trusted,
			"explanation":          explanationOf(prop),
			"units_under_contract": fns,
			"n_units":              len(fns),
			"functions_verified_inlined_into_callers": inlined,
			"loops_cut_by_invariants":                 loops,
			"by_backend":                              byBackend,
			"solver_s":                                solverS,
			"known_finding_obligations":               nKnown,
			"undischarged":                            violNames,
			"unsupported_constructs":                  dedup(unsup),
			"vacuous_units":                           vacuous,
			"bounded_standins":                        standinEvidence(standins),
			"thorough_cross_solver_audit":             auditEvidence(cfg.Audit),
			"samples":                                 samples,
			"arith":                                   "per function: bit-vectors of exact width (arith bv) or mathematical integers with explicit wrap-around at every Go operation (arith int)",
		},
	}
	if emitKnownPath != "" {
		eb, _ := json.MarshalIndent(emitKnown, "", " ")
		os.WriteFile(emitKnownPath, eb, 0o644)
	}
	os.MkdirAll(filepath.Join(verifRoot, "evidence"), 0o755)
	b, _ := json.MarshalIndent(ev, "", " ")
	os.WriteFile(filepath.Join(verifRoot, "evidence", prop+".json"), b, 0o644)
	fmt.Printf("property=%s tier=%s units=%d obligations=%d discharged=%d known-findings=%d violations=%d engine-errors=%d wall=%.1fs\n",
		prop, tier, len(units), nObl, nOK, nKnown, nViol, engineErr, time.Since(t0).Seconds())
	if nViol > 0 {
		return 1
	}
	if engineErr > 0 {
		return 2
	}
	return 0
}

func levelOf(prop string) string {
	switch prop {
	case "C06", "C16":
		return "other"
	}
	return "proof"
}

func explanationOf(prop string) string {
	return "contract-based deductive verification: every obligation generated from /repo's current source for the functions under contract is discharged by an SMT solver (unsat of the negated goal); see DESIGN.md for what the contracts state and what is assumed"
}

// exportedMethods lists the contract keys of the exported methods (with bodies) of a type.
func (p *Program) exportedMethods(tc *TypeContract) []string {
	parts := strings.SplitN(tc.Key, ".", 2)
	var out []string
	for _, sp := range p.spkgs {
		if sp.Pkg.Name() != parts[0] || !strings.HasPrefix(sp.Pkg.Path(), "github.com/whatap/golib") {
			continue
		}
		tn, ok := sp.Pkg.Scope().Lookup(parts[1]).(*types.TypeName)
		if !ok {
			continue
		}
		ms := p.sprog.MethodSets.MethodSet(types.NewPointer(tn.Type()))
		for i := 0; i < ms.Len(); i++ {
			m := ms.At(i)
			if !m.Obj().Exported() {
				continue
			}
			f := p.sprog.MethodValue(m)
			if f == nil || f.Synthetic != "" || len(f.Blocks) == 0 {
				continue
			}
			out = append(out, funcKey(f))
		}
		// `methods a, b`: further units of the discipline — unexported methods of the type (goroutine bodies) or
		// package-level functions of the same package
		for _, n := range splitList(tc.Opts["methods"]) {
			if n == "" {
				continue
			}
			if fn := p.findFunc(tc.Key + "." + n); fn != nil && len(fn.Blocks) > 0 {
				out = append(out, tc.Key+"."+n)
			} else if fn := p.findFunc(parts[0] + "." + n); fn != nil && len(fn.Blocks) > 0 {
				out = append(out, parts[0]+"."+n)
			} else {
				p.specErrors = append(p.specErrors, fmt.Sprintf("%s: type %s: methods: %s is neither a method of the type nor a function of the package", tc.File, tc.Key, n))
			}
		}
	}
	out = dedup(out)
	sort.Strings(out)
	return out
}

var emitKnownPath string
var emitKnown []KnownFinding

type ReplayInfo struct {
	Path      string
	Confirmed bool
}

type ReplayFile struct {
	Property   string            `json:"property"`
	Obligation string            `json:"obligation"`
	Function   string            `json:"function"`
	Class      string            `json:"class"`
	Clause     string            `json:"clause"`
	Position   string            `json:"position"`
	Status     string            `json:"solver_status"`
	Solver     string            `json:"solver"`
	Output     string            `json:"solver_output"`
	Inputs     map[string]string `json:"inputs,omitempty"`
	TestFile   string            `json:"go_test,omitempty"`
	TestPkgDir string            `json:"go_test_pkg,omitempty"`
	TestName   string            `json:"go_test_name,omitempty"`
	Confirmed  bool              `json:"confirmed_on_real_code"`
	ReplayLog  string            `json:"replay_log,omitempty"`
	Note       string            `json:"note"`
}

func writeReplay(prog *Program, dir, prop string, u *Unit, o *Obligation) ReplayInfo {
	rf := &ReplayFile{Property: prop, Obligation: o.Name, Function: o.Func, Class: o.Class, Clause: o.Desc,
		Position: fmt.Sprintf("%s:%d", o.Pos.Filename, o.Pos.Line), Status: o.Status, Solver: o.Solver, Output: firstLines(o.Model, 400)}
	path := filepath.Join(dir, shortFile(o.Name)+".json")
	tryReplay(prog, dir, u, o, rf)
	if !rf.Confirmed && rf.Note == "" {
		rf.Note = "the obligation is discharged on the unchanged tree and is not discharged on this tree; the solver gave no model that could be replayed"
	}
	b, _ := json.MarshalIndent(rf, "", " ")
	os.WriteFile(path, b, 0o644)
	return ReplayInfo{Path: path, Confirmed: rf.Confirmed}
}

func shortFile(name string) string {
	n := sanitize(name)
	if len(n) > 150 {
		h := fnv.New64a()
		h.Write([]byte(name))
		n = fmt.Sprintf("%s_%x", n[:120], h.Sum64())
	}
	return n
}

// standinEvidence lists the bounded stand-ins that ran (never counted under obligations / discharged).
func standinEvidence(rs []standinResult) []map[string]string {
	out := []map[string]string{}
	for _, r := range rs {
		out = append(out, map[string]string{"function": r.Name, "file": r.File, "bound": r.Bound, "cases": r.Cases, "status": r.Status,
			"label": "bounded: a test of the real code over the stated finite set of inputs; not a proof and not counted as one"})
	}
	return out
}

func auditEvidence(a *AuditResult) map[string]interface{} {
	if a == nil {
		return map[string]interface{}{"ran": false, "note": "quick tier: obligations are accepted from the first solver that proves them"}
	}
	return map[string]interface{}{"ran": true, "sampled": a.Sampled, "confirmed_by_second_solver": a.Confirmed, "undecided_by_second_solver": a.Undecided, "disagreements": a.Disagree,
		"note": "a seeded sample of the obligations discharged on the fast path was re-sent stand-alone to z3 4.8.12 and cvc5; every obligation that reached the portfolio got an 8 s window in which any other solver could contradict the first verdict"}
}
