package main

// Per-function VC generation (two passes: first to learn the heap keys, second for the real VC).

import (
	"fmt"
	"go/types"
	"sort"
	"strings"

	"golang.org/x/tools/go/ssa"
)

type GenOpts struct {
	LockOnly bool
	TC       *TypeContract
}

type Unit struct {
	Key      string // function key or lemma name
	Kind     string // func | lemma | locks
	VC       *VC
	Err      error
	Unsupported []string
	Props    []string
	Loops    int
	ReachCond string // normal-return condition; facts ∧ ReachCond must be satisfiable (vacuity guard)
	Reach    string // sat | unknown | unsat(=vacuous) | n/a
	Params   map[string]Val
}

func (p *Program) prelude(vc *VC, pkgs map[string]bool) {
	var names []string
	for n := range pkgs {
		names = append(names, n)
	}
	sort.Strings(names)
	for _, n := range names {
		for _, l := range p.cs.RawSMT[n] {
			switch {
			case strings.HasPrefix(l, "bv:"):
				if vc.mode == ModeBV {
					vc.facts = append(vc.facts, "\x00"+l[3:])
				}
			case strings.HasPrefix(l, "int:"):
				if vc.mode == ModeInt {
					vc.facts = append(vc.facts, "\x00"+l[4:])
				}
			default:
				vc.facts = append(vc.facts, "\x00"+l)
			}
		}
	}
	for _, a := range p.cs.Axioms {
		if !pkgs[a.Pkg] || a.E == nil {
			continue
		}
		if a.Lemma && vc.name == "lemma:"+a.Pkg+"."+a.Name {
			continue
		}
		if (a.Scope == "int" && vc.mode != ModeInt) || (a.Scope == "bv" && vc.mode != ModeBV) || (a.Scope == "explicit" && !vc.with[a.Name]) {
			continue
		}
		env := &Env{vc: vc, st: NewState(), vars: map[string]Val{}, pkg: p.typesPkgByName(a.Pkg), pkgName: a.Pkg}
		t, err := env.EvalBool(a.E)
		if err != nil {
			// an axiom that cannot be expressed in this mode is skipped (recorded)
			vc.warn("axiom %s.%s skipped in mode %s: %v", a.Pkg, a.Name, vc.mode, err)
			continue
		}
		vc.axiom(t)
		if !a.Lemma {
			vc.assumptions["axiom "+a.Pkg+"."+a.Name] = true
		}
	}
}

func (p *Program) GenFunc(key string, opts GenOpts) *Unit {
	u := &Unit{Key: key, Kind: "func"}
	if opts.LockOnly {
		u.Kind = "locks"
	}
	fn := p.findFunc(key)
	if fn == nil {
		u.Err = fmt.Errorf("function %s not found in the program (contract without target)", key)
		return u
	}
	if len(fn.Blocks) == 0 {
		u.Err = fmt.Errorf("function %s has no body", key)
		return u
	}
	if fc := p.cs.Funcs[key]; fc != nil && !opts.LockOnly {
		if _, ok := fc.Opts["structural"]; ok {
			// a unit decided on the shape of the code alone (no symbolic execution): `norecover`
			u.VC = p.genStructural(fn, key, fc)
			u.ReachCond = "true"
			u.Props = fc.Props
			return u
		}
	}
	var pre map[string]string
	var usedPkgs map[string]bool
	for pass := 1; pass <= 2; pass++ {
		vc, fr, err := p.genOnce(fn, key, opts, pre, usedPkgs)
		if err != nil {
			u.Err = err
			return u
		}
		if pass == 1 {
			pre = vc.heapSorts
			usedPkgs = map[string]bool{}
			for k := range vc.usedContracts {
				if fc := p.cs.Funcs[k]; fc != nil {
					usedPkgs[fc.Pkg] = true
				}
			}
			for k := range vc.inlined {
				usedPkgs[pkgOfKey(k)] = true
			}
			continue
		}
		u.VC = vc
		u.ReachCond = fr.reachCond
		u.Params = fr.params
		u.Unsupported = dedup(fr.unsupported)
		u.Loops = len(fr.loops)
	}
	if fc := p.cs.Funcs[key]; fc != nil {
		u.Props = fc.Props
	}
	return u
}

func dedup(xs []string) []string {
	seen := map[string]bool{}
	var out []string
	for _, x := range xs {
		if !seen[x] {
			seen[x] = true
			out = append(out, x)
		}
	}
	return out
}

func (p *Program) genOnce(fn *ssa.Function, key string, opts GenOpts, pre map[string]string, usedPkgs map[string]bool) (vc *VC, fr *Frame, err error) {
	defer func() {
		if r := recover(); r != nil {
			if ee, ok := r.(evalErr); ok {
				err = fmt.Errorf("%s: %s", key, ee.msg)
				return
			}
			// an engine limitation hit by this function's code: the unit cannot be decided (reported, never a crash)
			err = fmt.Errorf("%s: the VC generator cannot translate this function: %v", key, r)
		}
	}()
	fc := p.cs.Funcs[key]
	mode := ModeInt
	if fc != nil && fc.ModeSet {
		mode = fc.Mode
	}
	name := key
	if opts.LockOnly {
		name = "locks:" + key
	}
	vc = NewVC(p, mode, name)
	vc.models = p.cs.PkgModels[pkgOfKey(key)]
	vc.unitPkg = pkgOfKey(key)
	vc.noQuant = opts.LockOnly
	// pre-populate heap keys (so that havoc points know every key)
	var ks []string
	for k := range pre {
		ks = append(ks, k)
	}
	sort.Strings(ks)
	st := NewState()
	for _, k := range ks {
		vc.hget(st, k, pre[k])
	}
	pkgs := map[string]bool{pkgOfKey(key): true}
	for k := range usedPkgs {
		pkgs[k] = true
	}
	if fc != nil {
		for _, u := range strings.Fields(fc.Opts["uses"]) {
			pkgs[u] = true
		}
		vc.sliceUF = strings.TrimSpace(fc.Opts["sliceidx"]) == "uf"
		_, vc.absRem = fc.Opts["absrem"]
		if w := strings.Fields(strings.ReplaceAll(fc.Opts["with"], ",", " ")); len(w) > 0 {
			vc.with = map[string]bool{}
			for _, n := range w {
				vc.with[n] = true
			}
		}
	}
	if fc != nil {
		// `opaque pkg.f g`: hide the definitions of these spec functions in this unit (sound: only forgets facts)
		for _, o := range strings.Fields(fc.Opts["opaque"]) {
			if vc.opaque == nil {
				vc.opaque = map[string]bool{}
			}
			if !strings.Contains(o, ".") {
				o = pkgOfKey(key) + "." + o
			}
			vc.opaque[o] = true
		}
	}
	p.prelude(vc, pkgs)
	vc.axiom("(>= " + vc.top(st) + " 0)")
	fr = &Frame{vc: vc, fn: fn, fc: fc, regs: map[ssa.Value]Val{}, oblFn: key, closures: map[string]*closureRec{}, pathCond: "true"}
	if fc != nil {
		fr.nopanic = fc.NoPanic
		fr.view = fc.Opts["view"]
		fr.trackAlloc = fc.Opts["track-alloc"] != ""
	}
	fr.lockOnly = opts.LockOnly
	fr.tc = opts.TC
	// parameters
	var args []Val
	for _, prm := range fn.Params {
		v := vc.freshVal(prm.Name(), prm.Type())
		fr.wfFact(st, v, "true")
		if rf := vc.rangeFact(v); rf != "" {
			vc.axiom(rf)
		}
		args = append(args, v)
	}
	fr.bindParams(args)
	for _, fv := range fn.FreeVars {
		v := vc.freshVal(fv.Name(), fv.Type())
		fr.wfFact(st, v, "true")
		fr.regs[fv] = v
		// a closure verified as a unit of its own: a captured variable is a non-nil cell; its name denotes, in the
		// contract, the value the cell holds when the closure is entered
		if pt, ok := fv.Type().Underlying().(*types.Pointer); ok && !isAggregate(pt.Elem()) {
			vc.axiom("(not (= " + v.C[0] + " 0))")
			ev := vc.readKey(st, cellKey(pt.Elem()), pt.Elem(), v.C[0])
			fr.loadedFacts(st, ev)
			if _, clash := fr.params[fv.Name()]; !clash {
				fr.params[fv.Name()] = ev
			}
		}
	}
	if fn.Signature.Recv() != nil && len(args) > 0 {
		if _, ok := args[0].T.Underlying().(*types.Pointer); ok {
			vc.axiom("(not (= " + args[0].C[0] + " 0))")
			fr.recvRef = args[0].C[0]
		}
	}
	vars := map[string]Val{}
	for n, v := range fr.params {
		vars[n] = v
	}
	var pkg *types.Package
	if fn.Pkg != nil {
		pkg = fn.Pkg.Pkg
	}
	env := &Env{vc: vc, st: st, old: st, vars: vars, pkg: pkg}
	if fc != nil && !opts.LockOnly {
		for _, c := range clausesFor(fc.Requires, "") {
			t, e := env.EvalBool(c.E)
			if e != nil {
				fr.specError(c, e)
				continue
			}
			vc.axiom(t)
		}
	}
	if opts.LockOnly && opts.TC != nil && strings.HasPrefix(opts.TC.Lock, "global ") {
		// `lock global NAME`: the discipline's lock is a package-level mutex variable (one lock for every instance of the
		// type); the units may also be plain functions and unexported methods (goroutine bodies) listed under `methods`
		name := strings.TrimSpace(strings.TrimPrefix(opts.TC.Lock, "global "))
		var gv *types.Var
		if tp := p.typesPkgByName(opts.TC.Pkg); tp != nil {
			gv, _ = tp.Scope().Lookup(name).(*types.Var)
		}
		if gv == nil {
			return nil, nil, fmt.Errorf("%s: lock global %s: no such package-level variable in package %s", key, name, opts.TC.Pkg)
		}
		fr.lockAddr = vc.globalAddr(gv)
		fr.globalLock = true
		vc.axiom("(= " + vc.hget(st, "held", "(Array Int Bool)") + " ((as const (Array Int Bool)) false))")
	} else if opts.LockOnly && opts.TC != nil && opts.TC.Lock != "" && fr.recvRef != "" {
		S := args[0].T.Underlying().(*types.Pointer).Elem()
		fr.lockAddr = vc.emb(S, opts.TC.Lock, fr.recvRef)
		for _, f := range structFields(S) {
			if f.Name() == opts.TC.Lock && f.Type().String() == "*sync.Cond" {
				// the lock is the Locker of a condition variable: this.lock.L
				condRef := vc.readField(st, S, f, fr.recvRef).C[0]
				if cs, ok := f.Type().Underlying().(*types.Pointer).Elem().Underlying().(*types.Struct); ok {
					for i := 0; i < cs.NumFields(); i++ {
						if cs.Field(i).Name() == "L" {
							lv := vc.readField(st, f.Type().Underlying().(*types.Pointer).Elem(), cs.Field(i), condRef)
							fr.lockAddr = vc.define("lockaddr", "Int", lv.C[1])
						}
					}
				}
			}
		}
		// entry: an exported method is called from outside the collection code: this goroutine holds none of the collection locks
		vc.axiom("(= " + vc.hget(st, "held", "(Array Int Bool)") + " ((as const (Array Int Bool)) false))")
	}
	if fc != nil && fc.NoPanicIf != nil && !opts.LockOnly {
		t, e := env.EvalBool(fc.NoPanicIf.E)
		if e != nil {
			fr.specError(fc.NoPanicIf, e)
		} else {
			fr.nopanicGuard = vc.define("nopanic_if", "Bool", t)
		}
	}
	fr.old = st.Clone()
	entry := st.Clone()
	res := fr.exec(st)
	fr.reachCond = res.cond
	// postconditions
	if fc != nil && !opts.LockOnly {
		_, rnames := fr.contractNames(fc, fn, fn.Signature)
		pvars := map[string]Val{}
		for n, v := range fr.params {
			pvars[n] = v
		}
		bindResults(pvars, rnames, res.results)
		if _, split := fc.Opts["splitreturns"]; split && len(fr.returns) > 1 {
			// `splitreturns`: the ghost updates and the postconditions are evaluated once per return statement, on the
			// state of that return (no merged state, hence no if-then-else over heap arrays in the goals)
			// the returns in source order (`set@K` names the K-th return statement of the function text)
			rets := append([]retRec(nil), fr.returns...)
			sort.SliceStable(rets, func(a, b int) bool { return rets[a].pos < rets[b].pos })
			for ri, r := range rets {
				rst := r.st.Clone()
				rvars := map[string]Val{}
				for n, v := range fr.params {
					rvars[n] = v
				}
				bindResults(rvars, rnames, r.results)
				renv := &Env{vc: vc, st: rst, old: entry, vars: rvars, pkg: pkg, heads: map[int]*State{}}
				for _, gu := range fc.Ghost {
					if gu.Ret != 0 && gu.Ret != ri+1 {
						continue
					}
					if err := fr.ghostAssign(rst, renv, gu); err != nil {
						p.specErrors = append(p.specErrors, fmt.Sprintf("%s:%d: ghost update %s: %v", fc.File, fc.Line, gu.Target.String(), err))
					}
				}
				for _, c := range clausesFor(fc.Ensures, "") {
					for _, part := range splitConj(c.E) {
						t, e := renv.EvalBool(part)
						if e != nil {
							fr.specError(c, e)
							continue
						}
						vc.oblige("post", key, "post", r.cond, t, fr.pos(fn.Pos()), part.String())
					}
				}
			}
			return vc, fr, nil
		}
		penv := &Env{vc: vc, st: res.st, old: entry, vars: pvars, pkg: pkg, heads: map[int]*State{}}
		for _, li := range fr.loops {
			if li.headSt != nil {
				penv.heads[li.ordinal] = li.headSt
			}
		}
		// ghost updates (`set target := value`): the contract says how the function advances ghost state; executed on
		// the state at normal return, in order, before the postconditions are checked
		for _, gu := range fc.Ghost {
			if err := fr.ghostAssign(res.st, penv, gu); err != nil {
				p.specErrors = append(p.specErrors, fmt.Sprintf("%s:%d: ghost update %s: %v", fc.File, fc.Line, gu.Target.String(), err))
			}
		}
		for _, c := range clausesFor(fc.Ensures, "") {
			for _, part := range splitConj(c.E) {
				t, e := penv.EvalBool(part)
				if e != nil {
					fr.specError(c, e)
					continue
				}
				vc.oblige("post", key, "post", res.cond, t, fr.pos(fn.Pos()), part.String())
			}
		}
	}
	if opts.LockOnly && fr.lockAddr != "" {
		// no lock is held on any exit (normal or panicking)
		if len(fr.returns) > 0 {
			vc.oblige("lock", key, "exit-unlocked", res.cond, notT(vc.heldTerm(res.st, fr.lockAddr)), fr.pos(fn.Pos()), "lock released on every normal return")
		}
		for _, pr := range fr.panics {
			vc.oblige("lock", key, "panic-exit-unlocked", pr.cond, notT(vc.heldTerm(pr.st, fr.lockAddr)), fr.pos(fn.Pos()), "lock released on panicking exit")
		}
	}
	return vc, fr, nil
}

// GenLemma builds the VC of a spec-level lemma.
func (p *Program) GenLemma(a *AxiomDecl) *Unit {
	u := &Unit{Key: "lemma:" + a.Pkg + "." + a.Name, Kind: "lemma", Props: a.Props}
	var err error
	func() {
		defer func() {
			if r := recover(); r != nil {
				if ee, ok := r.(evalErr); ok {
					err = fmt.Errorf("%s", ee.msg)
					return
				}
				panic(r)
			}
		}()
		vc := NewVC(p, a.Mode, u.Key)
		if len(a.With) > 0 {
			vc.with = map[string]bool{}
			for _, n := range a.With {
				vc.with[n] = true
			}
		}
		p.prelude(vc, map[string]bool{a.Pkg: true})
		env := &Env{vc: vc, st: NewState(), vars: map[string]Val{}, pkg: p.typesPkgByName(a.Pkg), pkgName: a.Pkg}
		goal := a.E
		if a.Induct != "" {
			q, ok := a.E.(*EQuant)
			has := false
			if ok && q.Forall {
				for _, v := range q.Vars {
					if v.Name == a.Induct {
						has = true
					}
				}
			}
			if !has {
				err = fmt.Errorf("induction %s: the lemma must be a forall binding %s at top level", a.Induct, a.Induct)
				return
			}
			n := &EIdent{a.Induct}
			ih := &ELet{a.Induct, &EBin{"-", n, &ELit{"1"}}, q.Body}
			goal = &EQuant{Forall: true, Vars: q.Vars, Pats: q.Pats, Body: &EBin{"==>", &EBin{"==>", &EBin{">", n, &ELit{"0"}}, ih}, q.Body}}
		}
		t, e := env.EvalBool(goal)
		if e != nil {
			err = e
			return
		}
		vc.oblige("lemma", u.Key, "lemma", "true", t, p.sprog.Fset.Position(0), a.Text)
		u.VC = vc
	}()
	if err != nil {
		u.Err = fmt.Errorf("%s:%d: %v", a.File, a.Line, err)
	}
	return u
}

// splitConj splits top-level conjunctions (also under let) into separate goals.
func splitConj(e Expr) []Expr {
	switch x := e.(type) {
	case *EBin:
		if x.Op == "&&" {
			return append(splitConj(x.X), splitConj(x.Y)...)
		}
	case *ELet:
		var out []Expr
		for _, b := range splitConj(x.Body) {
			out = append(out, &ELet{x.Name, x.X, b})
		}
		return out
	}
	return []Expr{e}
}

// ghostAssign executes one ghost update on st: the target is a ghost field of an object (x.g) or a ghost global.
func (fr *Frame) ghostAssign(st *State, env *Env, gu *GhostUpd) (err error) {
	vc := fr.vc
	defer func() {
		if r := recover(); r != nil {
			if ee, ok := r.(evalErr); ok {
				err = fmt.Errorf("%s", ee.msg)
				return
			}
			panic(r)
		}
	}()
	switch x := gu.Target.(type) {
	case *ESel:
		base := env.eval(x.X, nil)
		ref, S, ok := derefStruct(base)
		if !ok {
			return fmt.Errorf("target is not a field of a struct object")
		}
		g := vc.prog.ghostField(structKey(S), x.Name)
		if g == nil {
			return fmt.Errorf("%s is not a ghost field (only ghost state can be assigned)", x.Name)
		}
		t := env.ghostType(g)
		v := env.coerce(env.eval(gu.Value, t), t)
		vc.writeKey(st, fieldKey(S, x.Name), t, ref, v)
		return nil
	case *EIdent:
		if g := vc.prog.ghostGlobalIn(x.Name, env.specPkg()); g != nil {
			t := env.ghostType(g)
			v := env.coerce(env.eval(gu.Value, t), t)
			vc.writeGlobal(st, "G:ghost."+g.Pkg+"."+x.Name, t, v)
			return nil
		}
		return fmt.Errorf("%s is not a ghost global", x.Name)
	}
	return fmt.Errorf("unsupported ghost target")
}

// genStructural: `structural` units. Clause `norecover`: neither the function nor any of its closures calls recover(): a
// failure raised below it (a short read) propagates to the caller instead of being swallowed, so the function cannot return an
// object built from bytes that were not present (property C04). One obligation per recover() call found (goal false, with the
// call's position); one trivially true obligation when there is none, so that the unit is never empty.
func (p *Program) genStructural(fn *ssa.Function, key string, fc *FuncContract) *VC {
	vc := NewVC(p, ModeInt, key)
	vc.unitPkg = pkgOfKey(key)
	if _, ok := fc.Opts["norecover"]; ok {
		found := 0
		var visit func(f *ssa.Function)
		visit = func(f *ssa.Function) {
			for _, b := range f.Blocks {
				for _, ins := range b.Instrs {
					var cc *ssa.CallCommon
					switch x := ins.(type) {
					case *ssa.Call:
						cc = &x.Call
					case *ssa.Defer:
						cc = &x.Call
					case *ssa.Go:
						cc = &x.Call
					}
					if cc == nil {
						continue
					}
					if bi, ok := cc.Value.(*ssa.Builtin); ok && bi.Name() == "recover" {
						found++
						vc.oblige("recover", key, "no-recover", "true", "false", p.sprog.Fset.Position(ins.Pos()),
							"recover() in a decoder swallows the failure of a short read: the function could return an object built from bytes that were not present")
					}
				}
			}
			for _, af := range f.AnonFuncs {
				visit(af)
			}
		}
		visit(fn)
		if found == 0 {
			vc.oblige("recover", key, "no-recover", "true", "true", p.sprog.Fset.Position(fn.Pos()), "the function and its closures do not call recover()")
		}
	}
	return vc
}
