package main

// Bounded stand-ins: for clauses whose substance is string processing / time.Time / Go maps (outside the verifier),
// a bounded check of the real function with a stated bound stands in. It is labelled bounded, reported separately in
// the evidence, never counted under obligations/discharged. Files: /verif/standins/<prop>/*_test.go (in-package tests
// injected with -overlay; first lines carry `// STANDIN-DIR: <package dir relative to the repository root>`).

import (
	"encoding/json"
	"fmt"
	"os"
	"os/exec"
	"path/filepath"
	"regexp"
	"sort"
	"strings"
)

type standinResult struct {
	File   string   `json:"file"`
	Name   string   `json:"name"`
	Cases  string   `json:"cases"`
	Bound  string   `json:"bound"`
	Fails  []string `json:"failures,omitempty"`
	Status string   `json:"status"`
}

func runStandins(prop, root string, seed int) []standinResult {
	files, _ := filepath.Glob(filepath.Join(verifRoot, "standins", prop, "*_test.go"))
	sort.Strings(files)
	var out []standinResult
	for _, f := range files {
		src, err := os.ReadFile(f)
		if err != nil {
			continue
		}
		m := regexp.MustCompile(`STANDIN-DIR:\s*(\S+)`).FindStringSubmatch(string(src))
		if m == nil {
			continue
		}
		pkgDir := filepath.Join(root, m[1])
		ov := map[string]map[string]string{"Replace": {filepath.Join(pkgDir, "zz_govc_standin_test.go"): f}}
		ovPath := filepath.Join(verifRoot, "work", "standin_"+prop+"_"+filepath.Base(f)+".overlay.json")
		os.MkdirAll(filepath.Dir(ovPath), 0o755)
		ob, _ := json.Marshal(ov)
		os.WriteFile(ovPath, ob, 0o644)
		cmd := exec.Command("go", "test", "-overlay", ovPath, "-vet=off", "-v", "-count=1", "-timeout", "300s", "-run", "^TestStandin", ".")
		cmd.Dir = pkgDir
		cmd.Env = append(os.Environ(), "GOFLAGS=-mod=mod", "GOPROXY=off", "GOSUMDB=off", "GOTOOLCHAIN=local", fmt.Sprintf("VERIF_SEED=%d", seed))
		outb, _ := cmd.CombinedOutput()
		txt := string(outb)
		res := standinResult{File: f, Status: "ok"}
		for _, l := range strings.Split(txt, "\n") {
			if strings.HasPrefix(l, "STANDIN-FAIL ") {
				if len(res.Fails) < 5 {
					res.Fails = append(res.Fails, l)
				}
				res.Status = "fail"
			} else if strings.HasPrefix(l, "STANDIN ") {
				if mm := regexp.MustCompile(`name=(\S+) cases=(\d+) bound=(.*)`).FindStringSubmatch(l); mm != nil {
					res.Name, res.Cases, res.Bound = mm[1], mm[2], strings.Trim(mm[3], "\"")
				}
			}
		}
		if res.Name == "" {
			// the test did not complete (build failure, panic, timeout)
			res.Status = "fail"
			res.Name = strings.TrimSuffix(filepath.Base(f), "_test.go")
			if len(txt) > 1500 {
				txt = txt[len(txt)-1500:]
			}
			res.Fails = append(res.Fails, "stand-in did not complete: "+txt)
		}
		out = append(out, res)
	}
	return out
}
