package main

// Evaluation of contract expressions to SMT terms in a symbolic state.

import (
	"fmt"
	"go/constant"
	"go/token"
	"go/types"
	"math/big"
	"strings"
)

type Env struct {
	vc    *VC
	st    *State
	old   *State
	entry *State // state at loop entry, for entry(e)
	heads map[int]*State // postconditions: state at the most recent arrival at the header of loop K, for athead(K, e)
	headAny func(k int) *State // call sites: athead(K, e) of a callee denotes an intermediate state of the callee the caller cannot name: an arbitrary state (one per call and K)
	vars  map[string]Val
	pkg   *types.Package
	held  func(st *State, lockAddr string) string
	pkgName string // name of the package whose contract file the expression comes from (spec fns / ghost globals resolve here even when that package is not loaded)
	recFuel map[string]string // rec spec fn name -> fuel term to use for calls inside its own definition
	bound bool // evaluating under SMT binders (quantifier body, spec fn definition): nothing may be hoisted into global constants
}

func (env *Env) with(name string, v Val) *Env {
	n := *env
	n.vars = make(map[string]Val, len(env.vars)+1)
	for k, x := range env.vars {
		n.vars[k] = x
	}
	n.vars[name] = v
	return &n
}

func (env *Env) inState(st *State) *Env {
	n := *env
	n.st = st
	return &n
}

type evalErr struct{ msg string }

func efail(f string, a ...interface{}) { panic(evalErr{fmt.Sprintf(f, a...)}) }

// Eval evaluates e; returns an error instead of panicking.
func (env *Env) Eval(e Expr, hint types.Type) (v Val, err error) {
	defer func() {
		if r := recover(); r != nil {
			if ee, ok := r.(evalErr); ok {
				err = fmt.Errorf("%s (in %s)", ee.msg, e.String())
				return
			}
			panic(r)
		}
	}()
	return env.eval(e, hint), nil
}

func (env *Env) EvalBool(e Expr) (string, error) {
	v, err := env.Eval(e, types.Typ[types.Bool])
	if err != nil {
		return "", err
	}
	if len(v.C) != 1 || !isBool(v.T) {
		return "", fmt.Errorf("expression %s is not boolean (type %v)", e.String(), v.T)
	}
	return v.C[0], nil
}

func (env *Env) resolveType(te TypeExpr) types.Type {
	switch te.Kind {
	case "ptr":
		return types.NewPointer(env.resolveType(*te.Elem))
	case "slice":
		return types.NewSlice(env.resolveType(*te.Elem))
	case "map":
		return &ArrT{env.resolveType(*te.Key), env.resolveType(*te.Elem)}
	}
	n := te.Name
	switch n {
	case "mathint":
		return mathT
	case "ref":
		return refT
	case "interface{}", "any":
		return types.NewInterfaceType(nil, nil)
	}
	if env.vc.prog.cs.Sorts[n] {
		return &SortT{n}
	}
	if o := types.Universe.Lookup(n); o != nil {
		if tn, ok := o.(*types.TypeName); ok {
			return tn.Type()
		}
	}
	if k := strings.Index(n, "."); k >= 0 {
		p := env.vc.prog.pkgByName(n[:k], env.pkg)
		if p == nil {
			efail("unknown package %s", n[:k])
		}
		o := p.Scope().Lookup(n[k+1:])
		if tn, ok := o.(*types.TypeName); ok {
			return tn.Type()
		}
		efail("unknown type %s", n)
	}
	if env.pkg != nil {
		if o := env.pkg.Scope().Lookup(n); o != nil {
			if tn, ok := o.(*types.TypeName); ok {
				return tn.Type()
			}
		}
	}
	efail("unknown type %s", n)
	return nil
}

// ghostType resolves the declared type of a ghost field / ghost global in the package that declares it (a contract of
// another package may mention the ghost state, e.g. queue contracts reading list.LinkedList.nodes).
func (env *Env) ghostType(g *GhostField) types.Type {
	if p := env.vc.prog.typesPkgByName(g.Pkg); p != nil && p != env.pkg {
		n := *env
		n.pkg = p
		return n.resolveType(g.Type)
	}
	return env.resolveType(g.Type)
}

func isUntypedLit(e Expr) bool {
	switch x := e.(type) {
	case *ELit:
		return x.Val != "true" && x.Val != "false" && x.Val != "nil"
	case *EUn:
		return (x.Op == "-" || x.Op == "^") && isUntypedLit(x.X)
	case *EBin:
		switch x.Op {
		case "+", "-", "*", "/", "%", "<<", ">>", "&", "|", "^":
			// constant folding is integer-only: an operation on float literals is evaluated as an operation
			return isUntypedLit(x.X) && isUntypedLit(x.Y) && !isFloatLit(x.X) && !isFloatLit(x.Y)
		}
	}
	return false
}

// isFloatLit: a (possibly negated) decimal floating-point literal such as 0.673
func isFloatLit(e Expr) bool {
	switch x := e.(type) {
	case *ELit:
		return strings.Contains(x.Val, ".")
	case *EUn:
		return x.Op == "-" && isFloatLit(x.X)
	}
	return false
}

// litValue folds an untyped literal expression.
func litValue(e Expr) *big.Int {
	switch x := e.(type) {
	case *ELit:
		v, _ := new(big.Int).SetString(x.Val, 10)
		return v
	case *EUn:
		v := litValue(x.X)
		if x.Op == "-" {
			return new(big.Int).Neg(v)
		}
		return new(big.Int).Not(v)
	case *EBin:
		a, b := litValue(x.X), litValue(x.Y)
		switch x.Op {
		case "+":
			return new(big.Int).Add(a, b)
		case "-":
			return new(big.Int).Sub(a, b)
		case "*":
			return new(big.Int).Mul(a, b)
		case "/":
			return new(big.Int).Quo(a, b)
		case "%":
			return new(big.Int).Rem(a, b)
		case "<<":
			return new(big.Int).Lsh(a, uint(b.Int64()))
		case ">>":
			return new(big.Int).Rsh(a, uint(b.Int64()))
		case "&":
			return new(big.Int).And(a, b)
		case "|":
			return new(big.Int).Or(a, b)
		case "^":
			return new(big.Int).Xor(a, b)
		}
	}
	panic("litValue")
}

func (env *Env) defaultIntType() types.Type {
	if env.vc.mode == ModeInt {
		return mathT
	}
	return types.Typ[types.Int]
}

func (env *Env) litOf(v *big.Int, hint types.Type) Val {
	vc := env.vc
	if hint == nil {
		hint = env.defaultIntType()
	}
	if _, ok := hint.(*MathT); ok {
		return Val{T: mathT, C: []string{mathLit(v)}}
	}
	if _, ok := hint.(*RefT); ok {
		return Val{T: refT, C: []string{mathLit(v)}}
	}
	ni, ok := numOf(hint)
	if !ok {
		efail("integer literal used where %v expected", hint)
	}
	if ni.float {
		f, _ := new(big.Float).SetInt(v).Float64()
		return vc.constVal(constant.MakeFloat64(f), hint)
	}
	return Val{T: hint, C: []string{vc.intLit(v, ni.bits)}}
}

func (env *Env) eval(e Expr, hint types.Type) Val {
	vc := env.vc
	switch x := e.(type) {
	case *ELit:
		switch x.Val {
		case "true", "false":
			return Val{T: types.Typ[types.Bool], C: []string{x.Val}}
		case "nil":
			if hint == nil {
				return Val{T: refT, C: []string{"0"}}
			}
			return vc.zero(hint)
		}
		if isFloatLit(x) {
			// float literal: takes the float type of its context (float64 by default), exact rounding as in Go
			t := hint
			if ni, ok := numOf(t); t == nil || !ok || !ni.float {
				t = types.Typ[types.Float64]
			}
			return vc.constVal(constant.MakeFromLiteral(x.Val, token.FLOAT, 0), t)
		}
		return env.litOf(litValue(x), hint)
	case *EStr:
		return Val{T: types.Typ[types.String], C: []string{vc.strLit(x.Val)}}
	case *EIdent:
		return env.evalIdent(x.Name, hint)
	case *ESel:
		return env.evalSel(x, hint)
	case *EIndex:
		return env.evalIndex(x)
	case *ESlice:
		return env.evalSlice(x)
	case *EStore:
		m := env.eval(x.M, nil)
		at, ok := m.T.(*ArrT)
		if !ok {
			efail("store on non-array %v", m.T)
		}
		k := env.eval(x.K, at.K)
		v := env.eval(x.V, at.V)
		return Val{T: m.T, C: []string{"(store " + m.C[0] + " " + k.C[0] + " " + v.C[0] + ")"}}
	case *ECall:
		return env.evalCall(x, hint)
	case *EUn:
		if isFloatLit(x) {
			return env.eval(&ELit{"-" + x.X.(*ELit).Val}, hint)
		}
		if isUntypedLit(x) {
			return env.litOf(litValue(x), hint)
		}
		switch x.Op {
		case "!":
			v := env.eval(x.X, types.Typ[types.Bool])
			return Val{T: v.T, C: []string{notT(v.C[0])}}
		case "-":
			v := env.eval(x.X, hint)
			return Val{T: v.T, C: []string{vc.unop(token.SUB, v.C[0], v.T, true)}}
		case "^":
			v := env.eval(x.X, hint)
			return Val{T: v.T, C: []string{vc.unop(token.XOR, v.C[0], v.T, true)}}
		}
	case *EBin:
		return env.evalBin(x, hint)
	case *EQuant:
		return env.evalQuant(x)
	case *ELam:
		return env.evalLam(x)
	case *ELet:
		v := env.eval(x.X, nil)
		if env.bound && v.Addr == "" {
			// under binders the bound term may mention bound variables: use an SMT let instead of a global definition
			var binds []string
			names := make([]string, len(v.C))
			for i, c := range vc.flat(v.T) {
				names[i] = "l_" + x.Name + sanitize(c.suf)
				binds = append(binds, "("+names[i]+" "+v.C[i]+")")
			}
			r := env.with(x.Name, Val{T: v.T, C: names, Loc: v.Loc}).eval(x.Body, hint)
			out := make([]string, len(r.C))
			for i, c := range r.C {
				out[i] = "(let (" + strings.Join(binds, " ") + ") " + c + ")"
			}
			r.C = out
			return r
		}
		v = vc.defineVal("let_"+x.Name, v)
		return env.with(x.Name, v).eval(x.Body, hint)
	}
	efail("cannot evaluate %T", e)
	return Val{}
}

func (env *Env) evalIdent(name string, hint types.Type) Val {
	vc := env.vc
	if v, ok := env.vars[name]; ok {
		return v
	}
	// ghost global
	if g := vc.prog.ghostGlobalIn(name, env.specPkg()); g != nil {
		t := env.ghostType(g)
		return vc.readGlobal(env.st, "G:ghost."+g.Pkg+"."+name, t)
	}
	if env.pkg != nil {
		if o := env.pkg.Scope().Lookup(name); o != nil {
			return env.evalObject(o, hint)
		}
	}
	if o := types.Universe.Lookup(name); o != nil {
		if c, ok := o.(*types.Const); ok {
			return vc.constVal(c.Val(), c.Type())
		}
	}
	efail("unknown identifier %s", name)
	return Val{}
}

func (env *Env) evalObject(o types.Object, hint types.Type) Val {
	vc := env.vc
	switch c := o.(type) {
	case *types.Const:
		t := c.Type()
		if b, ok := t.(*types.Basic); ok && b.Info()&types.IsUntyped != 0 {
			if b.Info()&types.IsInteger != 0 || b.Kind() == types.UntypedRune {
				bi, _ := constBig(c.Val())
				return env.litOf(bi, hint)
			}
			if b.Info()&types.IsFloat != 0 {
				if hint != nil && isInteger(hint) {
					bi, ok := constBig(c.Val())
					if ok {
						return env.litOf(bi, hint)
					}
				}
				return vc.constVal(c.Val(), types.Typ[types.Float64])
			}
			if b.Info()&types.IsString != 0 {
				return vc.constVal(c.Val(), types.Typ[types.String])
			}
			if b.Info()&types.IsBoolean != 0 {
				return vc.constVal(c.Val(), types.Typ[types.Bool])
			}
		}
		if vc.mode == ModeInt && isInteger(t) {
			bi, _ := constBig(c.Val())
			return Val{T: t, C: []string{mathLit(bi)}}
		}
		return vc.constVal(c.Val(), t)
	case *types.Var:
		// package-level variable
		if isAggregate(c.Type()) {
			return Val{T: c.Type(), Addr: vc.globalAddr(c)}
		}
		vc.globalInitFacts(c)
		return vc.readGlobal(env.st, "G:"+c.Pkg().Name()+"."+c.Name(), c.Type())
	}
	efail("unsupported object %v", o)
	return Val{}
}

func (vc *VC) globalAddr(v *types.Var) string {
	n := "|gaddr_" + v.Pkg().Name() + "." + v.Name() + "|"
	if _, ok := vc.decls[n]; !ok {
		vc.declare(n, "(declare-const "+n+" Int)")
		vc.axiom("(< " + n + " 0)")
		vc.globalInitFacts(v)
	}
	return n
}

func (vc *VC) readGlobal(st *State, key string, t types.Type) Val {
	cs := vc.flat(t)
	out := make([]string, len(cs))
	for i, c := range cs {
		out[i] = vc.hget(st, key+c.suf, c.sort)
	}
	return Val{T: t, C: out}
}

func (vc *VC) writeGlobal(st *State, key string, t types.Type, v Val) {
	for i, c := range vc.flat(t) {
		vc.hset(st, key+c.suf, c.sort, v.C[i])
	}
}

// derefStruct: from a value that denotes a struct object (pointer to struct or addressed struct) get (ref, struct type).
func derefStruct(v Val) (string, types.Type, bool) {
	if v.Addr != "" {
		if _, ok := v.T.Underlying().(*types.Struct); ok {
			return v.Addr, v.T, true
		}
		return "", nil, false
	}
	if p, ok := v.T.Underlying().(*types.Pointer); ok {
		if _, ok := p.Elem().Underlying().(*types.Struct); ok {
			return v.C[0], p.Elem(), true
		}
	}
	return "", nil, false
}

func (env *Env) evalSel(x *ESel, hint types.Type) Val {
	vc := env.vc
	// package-qualified name?
	if id, ok := x.X.(*EIdent); ok {
		if _, isVar := env.vars[id.Name]; !isVar {
			if p := vc.prog.pkgByName(id.Name, env.pkg); p != nil && (env.pkg == nil || env.pkg.Scope().Lookup(id.Name) == nil) {
				o := p.Scope().Lookup(x.Name)
				if o == nil {
					// ghost global of that package
					if g := vc.prog.ghostGlobalIn(x.Name, p.Name()); g != nil {
						t := env.ghostType(g)
						return vc.readGlobal(env.st, "G:ghost."+g.Pkg+"."+x.Name, t)
					}
					efail("%s.%s not found", id.Name, x.Name)
				}
				return env.evalObject(o, hint)
			}
		}
	}
	base := env.eval(x.X, nil)
	return env.selectField(base, x.Name)
}

func (env *Env) selectField(base Val, name string) Val {
	vc := env.vc
	if ref, S, ok := derefStruct(base); ok {
		// ghost field?
		if g := vc.prog.ghostField(structKey(S), name); g != nil {
			t := env.ghostType(g)
			return vc.readKey(env.st, fieldKey(S, name), t, ref)
		}
		var pkg *types.Package
		if n, ok := S.(*types.Named); ok {
			pkg = n.Obj().Pkg()
		}
		obj, path, _ := types.LookupFieldOrMethod(S, true, pkg, name)
		fv, ok := obj.(*types.Var)
		if !ok {
			efail("no field %s in %v", name, S)
		}
		cur, curS := ref, S
		for k, idx := range path {
			f := curS.Underlying().(*types.Struct).Field(idx)
			if k == len(path)-1 {
				_ = fv
				return vc.readField(env.st, curS, f, cur)
			}
			// embedded step
			if pt, ok := f.Type().Underlying().(*types.Pointer); ok {
				cur = vc.readField(env.st, curS, f, cur).C[0]
				curS = pt.Elem()
			} else {
				cur = vc.emb(curS, f.Name(), cur)
				curS = f.Type()
			}
			// ghost field on embedded struct
			if g := vc.prog.ghostField(structKey(curS), name); g != nil && k == len(path)-2 {
				_ = g
			}
		}
	}
	// flattened struct / tuple value
	if st, ok := base.T.Underlying().(*types.Struct); ok && base.Addr == "" {
		off := 0
		for i := 0; i < st.NumFields(); i++ {
			n := len(vc.flat(st.Field(i).Type()))
			if st.Field(i).Name() == name {
				return Val{T: st.Field(i).Type(), C: base.C[off : off+n]}
			}
			off += n
		}
	}
	// pseudo-fields on slices and interfaces
	switch base.T.Underlying().(type) {
	case *types.Slice:
		it := types.Typ[types.Int]
		switch name {
		case "arr":
			return Val{T: refT, C: []string{base.C[0]}}
		case "off":
			return Val{T: it, C: []string{base.C[1]}}
		case "len":
			return Val{T: it, C: []string{base.C[2]}}
		case "cap":
			return Val{T: it, C: []string{base.C[3]}}
		}
	case *types.Interface:
		switch name {
		case "typ":
			return Val{T: refT, C: []string{base.C[0]}}
		case "val":
			return Val{T: refT, C: []string{base.C[1]}}
		}
	}
	// ghost field through embedded struct by searching promoted ghost
	if ref, S, ok := derefStruct(base); ok {
		for _, f := range structFields(S) {
			if f.Embedded() {
				var sub Val
				if pt, ok := f.Type().Underlying().(*types.Pointer); ok {
					sub = Val{T: pt, C: vc.readField(env.st, S, f, ref).C}
				} else {
					sub = Val{T: f.Type(), Addr: vc.emb(S, f.Name(), ref)}
				}
				if _, S2, ok := derefStruct(sub); ok && vc.prog.ghostField(structKey(S2), name) != nil {
					return env.selectField(sub, name)
				}
			}
		}
	}
	efail("cannot select .%s on value of type %v", name, base.T)
	return Val{}
}

func (env *Env) evalIndex(x *EIndex) Val {
	vc := env.vc
	base := env.eval(x.X, nil)
	switch u := base.T.Underlying().(type) {
	case *types.Slice:
		i := env.eval(x.I, types.Typ[types.Int])
		i = env.coerceIdx(i)
		if env.arithOverQVar(x.I) {
			// an index like s[k+i] with i quantified: (gidx off (+ k i)) would only add a useless pattern candidate;
			// keep the plain sum (such quantifiers are left to the solver's model-based instantiation as before)
			return vc.readElem(env.st, u.Elem(), base.C[0], vc.iadd(base.C[1], i.C[0]))
		}
		return vc.readElem(env.st, u.Elem(), base.C[0], vc.eidx(base.C[1], i.C[0]))
	case *types.Array:
		i := env.coerceIdx(env.eval(x.I, types.Typ[types.Int]))
		addr := base.Addr
		if addr == "" {
			addr = base.C[0]
		}
		return vc.readElem(env.st, u.Elem(), addr, i.C[0])
	case *types.Pointer:
		if a, ok := u.Elem().Underlying().(*types.Array); ok {
			i := env.coerceIdx(env.eval(x.I, types.Typ[types.Int]))
			return vc.readElem(env.st, a.Elem(), base.C[0], i.C[0])
		}
	case *ArrT:
		k := env.eval(x.I, u.K)
		k = env.coerce(k, u.K)
		term := "(select " + base.C[0] + " " + k.C[0] + ")"
		// values of a sized integer type stored in a ghost map are in the range of that type (int mode has no sorts to say so)
		if vc.mode == ModeInt && !env.bound {
			if ni, ok := numOf(u.V); ok && !ni.mathI && !ni.float && ni.bits < 64 {
				vc.axiomOnce(vc.inRange(term, ni.bits, ni.signed))
			}
		}
		return Val{T: u.V, C: []string{term}}
	case *types.Basic:
		if u.Info()&types.IsString != 0 {
			i := env.coerceIdx(env.eval(x.I, types.Typ[types.Int]))
			return Val{T: types.Typ[types.Uint8], C: []string{"(gs.at " + base.C[0] + " " + i.C[0] + ")"}}
		}
	}
	efail("cannot index value of type %v", base.T)
	return Val{}
}

// coerceIdx converts an integer value to Go int representation (index sort).
func (env *Env) coerceIdx(v Val) Val { return env.coerce(v, types.Typ[types.Int]) }

// coerce converts numeric v to type t when representations differ (used for mathint <-> sized ints).
func (env *Env) coerce(v Val, t types.Type) Val {
	if len(v.C) != 1 {
		return v
	}
	_, vm := v.T.(*MathT)
	_, tm := t.(*MathT)
	if vm == tm && (vm || identicalT(v.T.Underlying(), t.Underlying())) {
		return v
	}
	if _, ok := numOf(v.T); !ok {
		return v
	}
	if _, ok := numOf(t); !ok {
		return v
	}
	if env.vc.mode == ModeInt {
		// all integers are Int; mathematical spec semantics: no wrapping on coercion
		return Val{T: t, C: v.C}
	}
	return Val{T: t, C: []string{env.vc.convertNum(v.C[0], v.T, t)}}
}

func (env *Env) evalSlice(x *ESlice) Val {
	vc := env.vc
	base := env.eval(x.X, nil)
	if _, ok := base.T.Underlying().(*types.Slice); !ok {
		efail("slice expression on %v", base.T)
	}
	lo := vc.idx(0)
	if x.Lo != nil {
		lo = env.coerceIdx(env.eval(x.Lo, types.Typ[types.Int])).C[0]
	}
	hi := base.C[2]
	if x.Hi != nil {
		hi = env.coerceIdx(env.eval(x.Hi, types.Typ[types.Int])).C[0]
	}
	return Val{T: base.T, C: []string{base.C[0], vc.iadd(base.C[1], lo), vc.isub(hi, lo), vc.isub(base.C[3], lo)}}
}

var binTok = map[string]token.Token{"+": token.ADD, "-": token.SUB, "*": token.MUL, "/": token.QUO, "%": token.REM,
	"&": token.AND, "|": token.OR, "^": token.XOR, "&^": token.AND_NOT, "<<": token.SHL, ">>": token.SHR,
	"==": token.EQL, "!=": token.NEQ, "<": token.LSS, "<=": token.LEQ, ">": token.GTR, ">=": token.GEQ}

func (env *Env) evalBin(x *EBin, hint types.Type) Val {
	vc := env.vc
	boolT := types.Typ[types.Bool]
	switch x.Op {
	case "&&", "||", "==>", "<==>":
		a := env.eval(x.X, boolT)
		b := env.eval(x.Y, boolT)
		if !isBool(a.T) || !isBool(b.T) {
			efail("logical operator on non-boolean operands")
		}
		var s string
		switch x.Op {
		case "&&":
			s = andAll(a.C[0], b.C[0])
		case "||":
			s = orAll(a.C[0], b.C[0])
		case "==>":
			s = "(=> " + a.C[0] + " " + b.C[0] + ")"
		case "<==>":
			s = "(= " + a.C[0] + " " + b.C[0] + ")"
		}
		return Val{T: boolT, C: []string{s}}
	}
	if isUntypedLit(x) {
		return env.litOf(litValue(x), hint)
	}
	op := binTok[x.Op]
	isCmp := op == token.EQL || op == token.NEQ || op == token.LSS || op == token.LEQ || op == token.GTR || op == token.GEQ
	isShift := op == token.SHL || op == token.SHR
	var a, b Val
	h := hint
	if isCmp {
		h = nil
	}
	switch {
	case isShift:
		a = env.eval(x.X, h)
		b = env.eval(x.Y, types.Typ[types.Uint])
	case isUntypedLit(x.X) || isNilLit(x.X):
		b = env.eval(x.Y, h)
		a = env.eval(x.X, b.T)
	default:
		a = env.eval(x.X, h)
		b = env.eval(x.Y, a.T)
	}
	// multi-component equality
	if (op == token.EQL || op == token.NEQ) && (len(a.C) > 1 || len(b.C) > 1) {
		if len(a.C) != len(b.C) {
			efail("comparison of values with different shapes: %v vs %v", a.T, b.T)
		}
		var parts []string
		for i := range a.C {
			parts = append(parts, "(= "+a.C[i]+" "+b.C[i]+")")
		}
		s := andAll(parts...)
		if op == token.NEQ {
			s = notT(s)
		}
		return Val{T: boolT, C: []string{s}}
	}
	if a.Addr != "" || b.Addr != "" {
		efail("operator %s on aggregate values", x.Op)
	}
	if !isShift {
		// unify mathint with sized ints: promote to mathint in int mode, or convert in bv mode
		_, am := a.T.(*MathT)
		_, bm := b.T.(*MathT)
		if am != bm {
			if am {
				b = env.coerce(b, mathT)
			} else {
				a = env.coerce(a, mathT)
			}
		} else if !am && vc.mode == ModeBV {
			ai, ok1 := numOf(a.T)
			bi, ok2 := numOf(b.T)
			if ok1 && ok2 && (ai.bits != bi.bits) {
				efail("operands of %s have different widths: %v vs %v", x.Op, a.T, b.T)
			}
		}
	}
	t, rt := vc.binop(op, a.C[0], b.C[0], a.T, b.T, true)
	return Val{T: rt, C: []string{t}}
}

// arithOverQVar: e is an arithmetic expression (+ - * / %) that directly involves a quantified variable.
func (env *Env) arithOverQVar(e Expr) bool {
	b, ok := e.(*EBin)
	if !ok {
		return false
	}
	switch b.Op {
	case "+", "-", "*", "/", "%":
	default:
		return false
	}
	var mentions func(e Expr) bool
	mentions = func(e Expr) bool {
		switch x := e.(type) {
		case *EIdent:
			v, ok := env.vars[x.Name]
			return ok && len(v.C) == 1 && strings.HasPrefix(v.C[0], "q_")
		case *EBin:
			switch x.Op {
			case "+", "-", "*", "/", "%":
				return mentions(x.X) || mentions(x.Y)
			}
		case *EUn:
			return mentions(x.X)
		}
		return false
	}
	return mentions(b)
}

func isNilLit(e Expr) bool {
	l, ok := e.(*ELit)
	return ok && l.Val == "nil"
}

// evalLam: `mapof i T :: body` denotes the total map sending every i to body. It is introduced as a fresh array
// constant with its pointwise definition as a (triggered) axiom; this is a conservative extension (such a map
// exists whatever the body is, and the body cannot mention the new constant).
func (env *Env) evalLam(x *ELam) Val {
	vc := env.vc
	if env.bound {
		efail("mapof under a binder is not supported")
	}
	kt := env.resolveType(x.Var.Type)
	name := "q_" + x.Var.Name
	n := env.with(x.Var.Name, Val{T: kt, C: []string{name}})
	n.bound = true
	vc.qdepth++
	body := func() Val {
		defer func() { vc.qdepth-- }()
		return n.eval(x.Body, nil)
	}()
	if len(body.C) != 1 || body.Addr != "" {
		efail("mapof body must be a scalar value")
	}
	at := &ArrT{kt, body.T}
	lam := vc.fresh("lam_"+x.Var.Name, vc.sort1(at))
	def := "(= (select " + lam + " " + name + ") " + body.C[0] + ")"
	if vc.mode == ModeInt {
		if ni, ok := numOf(kt); ok && !ni.mathI && !ni.float && ni.bits < 64 {
			def = "(=> " + vc.inRange(name, ni.bits, ni.signed) + " " + def + ")"
		}
	}
	vc.axiom("(forall ((" + name + " " + vc.sort1(kt) + ")) (! " + def + " :pattern ((select " + lam + " " + name + "))))")
	return Val{T: at, C: []string{lam}}
}

func (env *Env) evalQuant(x *EQuant) Val {
	vc := env.vc
	n := env
	var binders []string
	for _, qv := range x.Vars {
		t := env.resolveType(qv.Type)
		srt := vc.sort1(t)
		name := "q_" + qv.Name
		if vc.qdepth > 0 {
			// nested quantifier (possibly reached through a pred expansion whose arguments mention the
			// enclosing bound variable): a distinct name per nesting depth avoids variable capture
			name = fmt.Sprintf("q_%s_%d", qv.Name, vc.qdepth)
		}
		n = n.with(qv.Name, Val{T: t, C: []string{name}})
		binders = append(binders, "("+name+" "+srt+")")
	}
	n.bound = true
	vc.qdepth++
	body := func() Val {
		defer func() { vc.qdepth-- }()
		return n.eval(x.Body, types.Typ[types.Bool])
	}()
	if !isBool(body.T) {
		efail("quantifier body is not boolean")
	}
	q := "exists"
	if x.Forall {
		q = "forall"
	}
	b := body.C[0]
	// int mode: a bound variable of a sized integer type narrower than 64 bits ranges over that type only
	// (in bv mode the sort already says so); without the guard `forall f uint32` would also speak about negative f.
	if vc.mode == ModeInt {
		var guards []string
		for _, qv := range x.Vars {
			t := env.resolveType(qv.Type)
			if ni, ok := numOf(t); ok && !ni.mathI && !ni.float && ni.bits < 64 {
				guards = append(guards, vc.inRange("q_"+qv.Name, ni.bits, ni.signed))
			}
		}
		if len(guards) > 0 {
			g := andAll(guards...)
			if x.Forall {
				b = "(=> " + g + " " + b + ")"
			} else {
				b = "(and " + g + " " + b + ")"
			}
		}
	}
	if len(x.Pats) > 0 {
		var ps []string
		for _, pat := range x.Pats {
			var ts []string
			for _, pe := range pat {
				pv := n.eval(pe, nil)
				ts = append(ts, pv.C...)
			}
			ps = append(ps, ":pattern ("+strings.Join(ts, " ")+")")
		}
		b = "(! " + b + " " + strings.Join(ps, " ") + ")"
	}
	return Val{T: types.Typ[types.Bool], C: []string{"(" + q + " (" + strings.Join(binders, " ") + ") " + b + ")"}}
}

func (env *Env) evalCall(x *ECall, hint types.Type) Val {
	vc := env.vc
	boolT := types.Typ[types.Bool]
	if id, ok := x.Fn.(*EIdent); ok {
		switch id.Name {
		case "old":
			if env.old == nil {
				efail("old() not available here")
			}
			return env.inState(env.old).eval(x.Args[0], hint)
		case "entry":
			if env.entry == nil {
				efail("entry() only inside loop invariants")
			}
			return env.inState(env.entry).eval(x.Args[0], hint)
		case "athead":
			// athead(K, e): e in the state in which control last stood at the header of loop K (for a loop left through
			// its header test this is the state in which the final test was made)
			if len(x.Args) != 2 {
				efail("athead(K, e) expects a loop ordinal and an expression")
			}
			kl, ok := x.Args[0].(*ELit)
			if !ok {
				efail("athead(K, e): K must be a literal loop ordinal")
			}
			hs := env.heads[int(litValue(kl).Int64())]
			if hs == nil && env.headAny != nil {
				hs = env.headAny(int(litValue(kl).Int64()))
			}
			if hs == nil {
				efail("athead(%s, ...): no such loop (only available in postconditions)", kl.Val)
			}
			return env.inState(hs).eval(x.Args[1], hint)
		case "len", "cap":
			v := env.eval(x.Args[0], nil)
			it := types.Typ[types.Int]
			switch u := v.T.Underlying().(type) {
			case *types.Slice:
				if id.Name == "len" {
					return Val{T: it, C: []string{v.C[2]}}
				}
				return Val{T: it, C: []string{v.C[3]}}
			case *types.Basic:
				if u.Info()&types.IsString != 0 {
					return Val{T: it, C: []string{"(gs.len " + v.C[0] + ")"}}
				}
			case *types.Array:
				return Val{T: it, C: []string{vc.idx(u.Len())}}
			case *types.Pointer:
				if a, ok := u.Elem().Underlying().(*types.Array); ok {
					return Val{T: it, C: []string{vc.idx(a.Len())}}
				}
			}
			efail("len of %v", v.T)
		case "ite":
			c := env.eval(x.Args[0], boolT)
			a := env.eval(x.Args[1], hint)
			b := env.eval(x.Args[2], a.T)
			if len(a.C) != len(b.C) {
				efail("ite branches differ in shape")
			}
			out := make([]string, len(a.C))
			for i := range a.C {
				out[i] = "(ite " + c.C[0] + " " + a.C[i] + " " + b.C[i] + ")"
			}
			return Val{T: a.T, C: out}
		case "fresh":
			v := env.eval(x.Args[0], nil)
			if env.old == nil {
				efail("fresh() needs an old state")
			}
			return Val{T: boolT, C: []string{"(> " + v.C[0] + " " + vc.top(env.old) + ")"}}
		case "iselem":
			// the pointer is the address of a slice/array element held by value (never an allocated object)
			v := env.eval(x.Args[0], nil)
			vc.declIsElem()
			a := v.Addr
			if a == "" {
				a = v.C[0]
			}
			return Val{T: boolT, C: []string{"(iselem " + a + ")"}}
		case "allocated":
			v := env.eval(x.Args[0], nil)
			return Val{T: boolT, C: []string{"(and (< 0 " + v.C[0] + ") (<= " + v.C[0] + " " + vc.top(env.st) + "))"}}
		case "held":
			v := env.eval(x.Args[0], nil)
			addr := v.Addr
			if addr == "" {
				addr = v.C[0]
			}
			return Val{T: boolT, C: []string{vc.heldTerm(env.st, addr)}}
		case "istype":
			v := env.eval(x.Args[0], nil)
			s, ok := x.Args[1].(*EStr)
			if !ok {
				efail("istype(x, \"T\") expects a string literal type")
			}
			t := vc.prog.typeByString(s.Val, env.pkg)
			if t == nil {
				efail("unknown type %s", s.Val)
			}
			return Val{T: boolT, C: []string{"(= " + v.C[0] + " " + vc.typeID(t) + ")"}}
		case "typeid":
			// typeid("T"): the dynamic-type id that interfaces holding a T carry in .typ
			if len(x.Args) != 1 {
				efail("typeid(\"T\") expects one string literal")
			}
			s, ok := x.Args[0].(*EStr)
			if !ok {
				efail("typeid(\"T\") expects a string literal type")
			}
			t := vc.prog.typeByString(s.Val, env.pkg)
			if t == nil {
				efail("unknown type %s", s.Val)
			}
			return Val{T: types.Typ[types.Int], C: []string{vc.typeID(t)}}
		case "ptrof":
			// ptrof(iface, "T"): the payload of an interface as *T
			v := env.eval(x.Args[0], nil)
			s := x.Args[1].(*EStr)
			t := vc.prog.typeByString(s.Val, env.pkg)
			if t == nil {
				efail("unknown type %s", s.Val)
			}
			return Val{T: t, C: []string{v.C[1]}}
		case "mathint":
			v := env.eval(x.Args[0], nil)
			if vc.mode == ModeInt {
				return Val{T: mathT, C: v.C}
			}
			return Val{T: mathT, C: []string{vc.convertNum(v.C[0], v.T, mathT)}}
		case "string":
			v := env.eval(x.Args[0], nil)
			if sl, ok := v.T.Underlying().(*types.Slice); ok {
				return Val{T: types.Typ[types.String], C: []string{vc.strFromBytes(env.st, sl.Elem(), v)}}
			}
			efail("string() of %v", v.T)
		case "elemof":
			// elemof("T", ref, i): element i of the backing array `ref` holding elements of type T (raw element-heap access)
			ts, ok := x.Args[0].(*EStr)
			if !ok || len(x.Args) != 3 {
				efail("elemof(\"T\", ref, index)")
			}
			et := vc.prog.typeByString(ts.Val, env.pkg)
			if et == nil {
				efail("unknown type %s", ts.Val)
			}
			r := env.eval(x.Args[1], refT)
			i := env.coerceIdx(env.eval(x.Args[2], types.Typ[types.Int]))
			return vc.readElem(env.st, et, r.C[0], i.C[0])
		case "arrayof":
			v := env.eval(x.Args[0], nil)
			switch u := v.T.Underlying().(type) {
			case *types.Slice:
				return Val{T: &ArrT{types.Typ[types.Int], u.Elem()}, C: []string{vc.elemArray(env.st, u.Elem(), v.C[0])}}
			case *types.Array:
				addr := v.Addr
				if addr == "" {
					addr = v.C[0]
				}
				return Val{T: &ArrT{types.Typ[types.Int], u.Elem()}, C: []string{vc.elemArray(env.st, u.Elem(), addr)}}
			}
			efail("arrayof(%v)", v.T)
		case "unboxint":
			// unboxint(i): the Go int stored in interface value i (meaningful when istype(i, "int")); lets an extern
			// contract of a variadic function (fmt.Sprintf) talk about the numbers it is given.
			v := env.eval(x.Args[0], nil)
			if _, ok := v.T.Underlying().(*types.Interface); !ok || len(v.C) != 2 {
				efail("unboxint expects an interface value")
			}
			it := types.Typ[types.Int]
			cs := vc.flat(it)
			vc.ufun("box_"+sanitize(cs[0].sort), []string{cs[0].sort}, "Int")
			un := vc.ufun("unbox_"+sanitize(cs[0].sort), []string{"Int"}, cs[0].sort, v.C[1])
			return Val{T: it, C: []string{un}}
		case "unbox":
			// unbox(i, "T"): the value of the single-component Go type T stored in interface value i (meaningful when
			// istype(i, "T")); the same box/unbox function pair that MakeInterface uses for that representation sort
			// The first argument may also be the integer payload word of an interface (its `.val` part, e.g. a ghost map
			// holding the payload words of stored interface values).
			if len(x.Args) != 2 {
				efail("unbox(x, \"T\") expects two arguments")
			}
			v := env.eval(x.Args[0], nil)
			ts, ok := x.Args[1].(*EStr)
			if !ok {
				efail("unbox(x, \"T\") expects a string literal type")
			}
			tt := vc.prog.typeByString(ts.Val, env.pkg)
			if tt == nil {
				efail("unknown type %s", ts.Val)
			}
			cs := vc.flat(tt)
			if len(cs) != 1 {
				efail("unbox: %s is not a single-component type", ts.Val)
			}
			word := v.C[0]
			if _, isI := v.T.Underlying().(*types.Interface); isI && len(v.C) == 2 {
				word = v.C[1]
			}
			vc.ufun("box_"+sanitize(cs[0].sort), []string{cs[0].sort}, "Int")
			un := vc.ufun("unbox_"+sanitize(cs[0].sort), []string{"Int"}, cs[0].sort, word)
			return Val{T: tt, C: []string{un}}
		case "ediv", "emod":
			// ediv(a, b), emod(a, b): floor division and non-negative remainder of mathematical integers for b > 0
			// (SMT-LIB div/mod). Unlike the Go operators / and % (truncated, encoded with a sign case split) they
			// are single terms, which keeps quantified calendar-style specifications small.
			if vc.mode != ModeInt {
				efail("%s is only available in arith int", id.Name)
			}
			if len(x.Args) != 2 {
				efail("%s expects 2 arguments", id.Name)
			}
			a := env.eval(x.Args[0], types.Typ[types.Int])
			b := env.eval(x.Args[1], a.T)
			if !isInteger(a.T) || !isInteger(b.T) {
				efail("%s: integer arguments expected", id.Name)
			}
			op := "div"
			if id.Name == "emod" {
				op = "mod"
			}
			return Val{T: a.T, C: []string{"(" + op + " " + a.C[0] + " " + b.C[0] + ")"}}
		case "streq":
			a := env.eval(x.Args[0], nil)
			b := env.eval(x.Args[1], nil)
			return Val{T: boolT, C: []string{vc.strEqExt(a.C[0], b.C[0])}}
		case "bits":
			// bits(f): bit pattern of a float as unsigned int of the same width
			v := env.eval(x.Args[0], nil)
			ni, _ := numOf(v.T)
			if ni.bits == 32 {
				return Val{T: types.Typ[types.Uint32], C: v.C}
			}
			return Val{T: types.Typ[types.Uint64], C: v.C}
		}
		// conversion to basic type
		if o := types.Universe.Lookup(id.Name); o != nil {
			if tn, ok := o.(*types.TypeName); ok && len(x.Args) == 1 {
				return env.convertTo(x.Args[0], tn.Type())
			}
		}
		// spec function
		if sf := vc.prog.specFnIn(id.Name, env.specPkg()); sf != nil {
			return env.callSpec(sf, x.Args)
		}
		// named type conversion in package
		if env.pkg != nil {
			if o := env.pkg.Scope().Lookup(id.Name); o != nil {
				if tn, ok := o.(*types.TypeName); ok && len(x.Args) == 1 {
					return env.convertTo(x.Args[0], tn.Type())
				}
			}
		}
		efail("unknown function %s", id.Name)
	}
	if sel, ok := x.Fn.(*ESel); ok {
		if id, ok := sel.X.(*EIdent); ok {
			if sf := vc.prog.specFnIn(sel.Name, id.Name); sf != nil {
				return env.callSpec(sf, x.Args)
			}
			if p := vc.prog.pkgByName(id.Name, env.pkg); p != nil {
				if o := p.Scope().Lookup(sel.Name); o != nil {
					if tn, ok := o.(*types.TypeName); ok && len(x.Args) == 1 {
						return env.convertTo(x.Args[0], tn.Type())
					}
				}
			}
		}
	}
	efail("unsupported call %s", x.String())
	return Val{}
}

func (env *Env) convertTo(arg Expr, t types.Type) Val {
	vc := env.vc
	if isUntypedLit(arg) && !isFloatLit(arg) {
		return env.litOf(litValue(arg), t)
	}
	var v Val
	if isFloatLit(arg) {
		v = env.eval(arg, t)
	} else {
		v = env.eval(arg, nil)
	}
	if _, ok := numOf(v.T); ok {
		if _, ok := numOf(t); ok {
			return Val{T: t, C: []string{vc.convertNum(v.C[0], v.T, t)}}
		}
	}
	if identicalT(v.T.Underlying(), t.Underlying()) {
		return Val{T: t, C: v.C, Addr: v.Addr}
	}
	efail("unsupported conversion %v -> %v", v.T, t)
	return Val{}
}

func (env *Env) callSpec(sf *SpecFn, args []Expr) Val {
	vc := env.vc
	if len(args) != len(sf.Params) {
		efail("spec fn %s expects %d args", sf.Name, len(sf.Params))
	}
	pkg := vc.prog.typesPkgByName(sf.Pkg)
	senv := &Env{vc: vc, pkg: pkg, pkgName: sf.Pkg}
	if sf.Pred {
		benv := &Env{vc: vc, st: env.st, old: env.old, entry: env.entry, heads: env.heads, headAny: env.headAny, vars: map[string]Val{}, pkg: pkg, pkgName: sf.Pkg, bound: env.bound}
		for i, p := range sf.Params {
			pt := senv.resolveType(p.Type)
			v := env.eval(args[i], pt)
			benv.vars[p.Name] = env.coerce(v, pt)
		}
		return benv.eval(sf.Body, senv.resolveType(sf.Result))
	}
	name := vc.declareSpecFn(sf)
	var actual []string
	for i, p := range sf.Params {
		pt := senv.resolveType(p.Type)
		v := env.eval(args[i], pt)
		v = env.coerce(v, pt)
		if len(v.C) != len(vc.flat(pt)) {
			efail("argument %d of %s: shape mismatch (%v vs %v)", i, sf.Name, v.T, pt)
		}
		actual = append(actual, v.C...)
	}
	rt := senv.resolveType(sf.Result)
	if len(vc.flat(rt)) != 1 {
		efail("spec fn %s: composite result", sf.Name)
	}
	if sf.Rec && sf.Body != nil && !vc.opaque[sf.Pkg+"."+sf.Name] {
		fuel := "(fuelS (fuelS fuelZ))"
		if f, ok := env.recFuel[name]; ok {
			fuel = f
		}
		actual = append([]string{fuel}, actual...)
	}
	if len(actual) == 0 {
		return Val{T: rt, C: []string{name}}
	}
	return Val{T: rt, C: []string{"(" + name + " " + strings.Join(actual, " ") + ")"}}
}

// declareSpecFn emits the SMT definition of a spec function (once per VC).
func (vc *VC) declareSpecFn(sf *SpecFn) string {
	name := "spec_" + sf.Pkg + "." + sf.Name
	if _, ok := vc.decls[name]; ok {
		return name
	}
	pkg := vc.prog.typesPkgByName(sf.Pkg)
	env := &Env{vc: vc, pkg: pkg, vars: map[string]Val{}, st: NewState(), bound: true, pkgName: sf.Pkg}
	var binders, sorts []string
	for _, p := range sf.Params {
		t := env.resolveType(p.Type)
		cs := vc.flat(t)
		cv := make([]string, len(cs))
		for i, c := range cs {
			bn := "p_" + p.Name + sanitize(c.suf)
			cv[i] = bn
			binders = append(binders, "("+bn+" "+c.sort+")")
			sorts = append(sorts, c.sort)
		}
		env.vars[p.Name] = Val{T: t, C: cv}
	}
	rt := env.resolveType(sf.Result)
	rs := vc.sort1(rt)
	if sf.Body == nil || vc.opaque[sf.Pkg+"."+sf.Name] || (sf.BVOnly && vc.mode == ModeInt) {
		// (a "spec bv fn" is deliberately opaque in int mode: whatever is proved about an uninterpreted
		// function also holds of the defined one, so this is a sound abstraction)
		if len(sorts) == 0 {
			vc.declare(name, "(declare-const "+name+" "+rs+")")
		} else {
			vc.declare(name, "(declare-fun "+name+" ("+strings.Join(sorts, " ")+") "+rs+")")
		}
		if vc.mode == ModeInt {
			if ni, ok := numOf(rt); ok && !ni.mathI && !ni.float && len(sorts) > 0 {
				app := "(" + name
				for i := range sorts {
					app += fmt.Sprintf(" a%d", i)
				}
				app += ")"
				var bs []string
				for i, s := range sorts {
					bs = append(bs, fmt.Sprintf("(a%d %s)", i, s))
				}
				vc.axiom("(forall (" + strings.Join(bs, " ") + ") (! " + vc.inRange(app, ni.bits, ni.signed) + " :pattern (" + app + ")))")
			}
		}
		return name
	}
	if sf.Rec {
		// Fuel-limited unfolding (as in Dafny): user-written applications carry fuel 2; each use of the
		// definitional axiom consumes one unit, so instantiation cannot loop.
		if len(sorts) == 0 {
			efail("recursive spec fn without parameters")
		}
		vc.declare("Fuel", "(declare-sort Fuel 0)")
		vc.declare("fuelZ", "(declare-const fuelZ Fuel)")
		vc.declare("fuelS", "(declare-fun fuelS (Fuel) Fuel)")
		vc.declare(name, "(declare-fun "+name+" (Fuel "+strings.Join(sorts, " ")+") "+rs+")")
		env.recFuel = map[string]string{name: "fl"}
		body := env.eval(sf.Body, rt)
		body = env.coerce(body, rt)
		args := ""
		for _, p := range sf.Params {
			args += " " + strings.Join(env.vars[p.Name].C, " ")
		}
		appS := "(" + name + " (fuelS fl)" + args + ")"
		app0 := "(" + name + " fl" + args + ")"
		bs := "((fl Fuel) " + strings.Join(binders, " ") + ")"
		vc.axiom("(forall " + bs + " (! (= " + appS + " " + app0 + ") :pattern (" + appS + ")))")
		vc.axiom("(forall " + bs + " (! (= " + appS + " " + body.C[0] + ") :pattern (" + appS + ")))")
		return name
	}
	// reserve the name to detect accidental recursion
	vc.decls[name] = ""
	body := env.eval(sf.Body, rt)
	body = env.coerce(body, rt)
	delete(vc.decls, name)
	if len(env.st.heap) != 0 {
		efail("spec fn %s reads the heap", sf.Name)
	}
	if sf.Opaque && len(binders) > 0 {
		// same meaning as the define-fun below (a conservative definition), but applications stay first-order terms:
		// equal arguments give equal results by congruence and the body is unfolded only for applications that occur.
		vc.declare(name, "(declare-fun "+name+" ("+strings.Join(sorts, " ")+") "+rs+")")
		args := ""
		for _, p := range sf.Params {
			args += " " + strings.Join(env.vars[p.Name].C, " ")
		}
		app := "(" + name + args + ")"
		vc.axiom("(forall (" + strings.Join(binders, " ") + ") (! (= " + app + " " + body.C[0] + ") :pattern (" + app + ")))")
		return name
	}
	vc.declare(name, "(define-fun "+name+" ("+strings.Join(binders, " ")+") "+rs+" "+body.C[0]+")")
	return name
}

// strFromBytes: the string whose bytes are the current contents of slice v.
func (vc *VC) strFromBytes(st *State, elem types.Type, v Val) string {
	i := vc.idxSort()
	bs := vc.isort(8)
	if _, ok := vc.decls["gs.from"]; !ok {
		vc.declare("gs.from", "(declare-fun gs.from ((Array "+i+" "+bs+") "+i+" "+i+") Str)")
		vc.axiom("(forall ((a (Array " + i + " " + bs + ")) (o " + i + ") (n " + i + ")) (! (=> " + vc.ile(vc.idx(0), "n") + " (= (gs.len (gs.from a o n)) n)) :pattern ((gs.from a o n))))")
		vc.axiom("(forall ((a (Array " + i + " " + bs + ")) (o " + i + ") (n " + i + ") (k " + i + ")) (! (=> (and " + vc.ile(vc.idx(0), "k") + " " + vc.ilt("k", "n") + ") (= (gs.at (gs.from a o n) k) (select a " + vc.eidx("o", "k") + "))) :pattern ((gs.at (gs.from a o n) k)) :pattern ((gs.from a o n) (select a " + vc.eidx("o", "k") + "))))")
	}
	arr := vc.elemArray(st, elem, v.C[0])
	if src, ok := vc.strOfArr[arr]; ok && v.C[1] == vc.idx(0) && v.C[2] == "(gs.len "+src+")" {
		return src // string([]byte(s)) with the bytes untouched since the conversion
	}
	return "(gs.from " + arr + " " + v.C[1] + " " + v.C[2] + ")"
}

// heldTerm: ghost "current goroutine holds the mutex at addr".
func (vc *VC) heldTerm(st *State, addr string) string {
	h := vc.hget(st, "held", "(Array Int Bool)")
	return "(select " + h + " " + addr + ")"
}

// strEqExt: extensional equality of two strings (same length, same bytes).
func (vc *VC) strEqExt(a, b string) string {
	i := vc.idxSort()
	return "(and (= (gs.len " + a + ") (gs.len " + b + ")) (forall ((k " + i + ")) (=> (and " + vc.ile(vc.idx(0), "k") + " " + vc.ilt("k", "(gs.len "+a+")") + ") (= (gs.at " + a + " k) (gs.at " + b + " k)))))"
}

// specPkg: the package name in which unqualified spec functions and ghost globals are looked up.
func (env *Env) specPkg() string {
	if env.pkgName != "" {
		return env.pkgName
	}
	if env.pkg != nil {
		return env.pkg.Name()
	}
	return ""
}
