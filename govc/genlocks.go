package main

// `govc genlocks -pkgs ./util/hmap`: proposes `type` lock-discipline contracts for every struct with a sync.Mutex field.
// The output is reviewed and frozen into /repo/<pkg>/zz_locks_verif.go (it is not regenerated at check time).

import (
	"flag"
	"fmt"
	"go/types"
	"os"
	"sort"
	"strings"

	"golang.org/x/tools/go/ssa"
)

func cmdGenLocks(args []string) {
	fs := flag.NewFlagSet("genlocks", flag.ExitOnError)
	pkgs := fs.String("pkgs", "./util/hmap", "package patterns")
	root := fs.String("root", repoRoot, "repository root")
	prop := fs.String("prop", "C10", "property tag")
	fs.Parse(args)
	prog, err := LoadProgram(*root, strings.Split(*pkgs, ","), nil)
	if err != nil {
		fmt.Fprintln(os.Stderr, err)
		os.Exit(2)
	}
	for _, pk := range prog.pkgs {
		sp := prog.spkgs[pk.PkgPath]
		if sp == nil {
			continue
		}
		// fields written outside constructors, per struct
		written := map[string]map[string]bool{}
		var visit func(f *ssa.Function)
		visit = func(f *ssa.Function) {
			if f == nil || f.Blocks == nil {
				return
			}
			ctor := f.Signature.Recv() == nil && strings.HasPrefix(f.Name(), "New")
			for _, b := range f.Blocks {
				for _, ins := range b.Instrs {
					st, ok := ins.(*ssa.Store)
					if !ok {
						continue
					}
					fa, ok := st.Addr.(*ssa.FieldAddr)
					if !ok {
						continue
					}
					S := fa.X.Type().Underlying().(*types.Pointer).Elem()
					fn := S.Underlying().(*types.Struct).Field(fa.Field).Name()
					if ctor {
						continue
					}
					k := structKey(S)
					if written[k] == nil {
						written[k] = map[string]bool{}
					}
					written[k][fn] = true
				}
			}
			for _, af := range f.AnonFuncs {
				visit(af)
			}
		}
		for _, m := range sp.Members {
			switch x := m.(type) {
			case *ssa.Function:
				visit(x)
			case *ssa.Type:
				for _, t := range []types.Type{x.Type(), types.NewPointer(x.Type())} {
					ms := prog.sprog.MethodSets.MethodSet(t)
					for i := 0; i < ms.Len(); i++ {
						visit(prog.sprog.MethodValue(ms.At(i)))
					}
				}
			}
		}
		var names []string
		for n := range sp.Members {
			names = append(names, n)
		}
		sort.Strings(names)
		fmt.Printf("//go:build verif\n\n// Lock discipline of the shared collections (property %s): for every exported method govc proves\n// Lock() is never called while the lock is held (sync.Mutex is not re-entrant), every access to a guarded\n// field happens while the lock is held, and the lock is released on every exit.\n\npackage %s\n\n", *prop, pk.Types.Name())
		for _, n := range names {
			t, ok := sp.Members[n].(*ssa.Type)
			if !ok {
				continue
			}
			st, ok := t.Type().Underlying().(*types.Struct)
			if !ok {
				continue
			}
			lock := ""
			for i := 0; i < st.NumFields(); i++ {
				if strings.HasSuffix(st.Field(i).Type().String(), "sync.Mutex") || strings.HasSuffix(st.Field(i).Type().String(), "sync.RWMutex") || st.Field(i).Type().String() == "*sync.Cond" {
					lock = st.Field(i).Name()
				}
			}
			if lock == "" {
				continue
			}
			var guarded []string
			entryTypes := map[string]types.Type{}
			for i := 0; i < st.NumFields(); i++ {
				f := st.Field(i)
				if f.Name() == lock {
					continue
				}
				if written[structKey(t.Type())][f.Name()] {
					guarded = append(guarded, f.Name())
				}
				// entry types reachable from fields
				ft := f.Type()
				if sl, ok := ft.Underlying().(*types.Slice); ok {
					ft = sl.Elem()
				}
				if pt, ok := ft.Underlying().(*types.Pointer); ok {
					if _, ok := pt.Elem().Underlying().(*types.Struct); ok && strings.Contains(pt.Elem().String(), pk.PkgPath) {
						entryTypes[structKey(pt.Elem())] = pt.Elem()
					}
				}
			}
			var eks []string
			for k := range entryTypes {
				eks = append(eks, k)
			}
			sort.Strings(eks)
			for _, ek := range eks {
				es := entryTypes[ek].Underlying().(*types.Struct)
				short := strings.TrimPrefix(ek, pk.Types.Name()+".")
				for i := 0; i < es.NumFields(); i++ {
					if written[ek][es.Field(i).Name()] {
						guarded = append(guarded, short+"."+es.Field(i).Name())
					}
				}
			}
			fmt.Printf("//@ type %s\n//@   prop %s\n//@   lock %s\n//@   guarded %s\n\n", n, *prop, lock, strings.Join(guarded, ", "))
		}
	}
}
