package main

import (
	"fmt"
	"math/big"
	"sort"
	"strings"
)

// Multiplication abstraction (a sound weakening used as an extra member of the solver portfolio).
//
// Hash-mixing code multiplies by large odd constants; bit-blasting solvers get lost inside the multipliers
// although the proof only needs congruence (equal arguments give equal products). abstractMul rewrites every
// bit-vector product with a literal factor >= 2^16 into an application of an uninterpreted function
// umul<W>(x, literal). Every model of the original script is a model of the rewritten one (interpret umul<W> as
// bvmul), hence `unsat` of the rewritten script implies `unsat` of the original. `sat`/`unknown` answers of the
// rewritten script mean nothing and are discarded by the caller.
// Two true facts about multiplication are kept: 0 * b = 0, and truncation commutes with it,
//   extract[V-1:0](umul<W>(a, b)) = umul<V>(extract[V-1:0](a), extract[V-1:0](b))   for V < W.

type sx struct {
	atom string
	list []*sx
}

func parseSexps(s string) []*sx {
	var toks []string
	for i := 0; i < len(s); {
		c := s[i]
		switch {
		case c == '(' || c == ')':
			toks = append(toks, string(c))
			i++
		case c == ' ' || c == '\n' || c == '\t' || c == '\r':
			i++
		case c == '|' || c == '"':
			j := i + 1
			for j < len(s) && s[j] != c {
				j++
			}
			toks = append(toks, s[i:j+1])
			i = j + 1
		case c == ';':
			for i < len(s) && s[i] != '\n' {
				i++
			}
		default:
			j := i
			for j < len(s) && !strings.ContainsRune("() \n\t\r", rune(s[j])) {
				j++
			}
			toks = append(toks, s[i:j])
			i = j
		}
	}
	pos := 0
	var rd func() *sx
	rd = func() *sx {
		t := toks[pos]
		pos++
		if t != "(" {
			return &sx{atom: t}
		}
		n := &sx{list: []*sx{}}
		for pos < len(toks) && toks[pos] != ")" {
			n.list = append(n.list, rd())
		}
		pos++
		return n
	}
	var out []*sx
	for pos < len(toks) {
		out = append(out, rd())
	}
	return out
}

func (e *sx) write(b *strings.Builder) {
	if e.list == nil {
		b.WriteString(e.atom)
		return
	}
	b.WriteByte('(')
	for i, x := range e.list {
		if i > 0 {
			b.WriteByte(' ')
		}
		x.write(b)
	}
	b.WriteByte(')')
}

// bvLit recognises (_ bvN W).
func (e *sx) bvLit() (val *big.Int, width int, ok bool) {
	if e.list == nil || len(e.list) != 3 || e.list[0].atom != "_" || !strings.HasPrefix(e.list[1].atom, "bv") {
		return nil, 0, false
	}
	v, ok1 := new(big.Int).SetString(e.list[1].atom[2:], 10)
	var w int
	if _, err := fmt.Sscanf(e.list[2].atom, "%d", &w); err != nil || !ok1 {
		return nil, 0, false
	}
	return v, w, true
}

func abstractMul(script string) (string, bool) {
	if !strings.Contains(script, "bvmul") || strings.Contains(script, "\"") {
		return "", false // nothing to abstract / SMT string literals are not handled by the little reader below
	}
	es := parseSexps(script)
	widths := map[int]bool{}
	limit := big.NewInt(1 << 16)
	var tr func(e *sx)
	tr = func(e *sx) {
		if e.list == nil {
			return
		}
		for _, x := range e.list {
			tr(x)
		}
		if len(e.list) == 3 && e.list[0].atom == "bvmul" {
			a, b := e.list[1], e.list[2]
			if v, _, ok := a.bvLit(); ok && v.Cmp(limit) >= 0 {
				a, b = b, a // literal second
			}
			if v, w, ok := b.bvLit(); ok && v.Cmp(limit) >= 0 {
				widths[w] = true
				e.list = []*sx{{atom: fmt.Sprintf("umul%d", w)}, a, b}
			}
		}
	}
	for _, e := range es {
		tr(e)
	}
	if len(widths) == 0 {
		return "", false
	}
	var ws []int
	for w := range widths {
		ws = append(ws, w)
	}
	sort.Ints(ws)
	var decl strings.Builder
	for _, w := range ws {
		fmt.Fprintf(&decl, "(declare-fun umul%d ((_ BitVec %d) (_ BitVec %d)) (_ BitVec %d))\n", w, w, w, w)
		fmt.Fprintf(&decl, "(assert (forall ((b (_ BitVec %d))) (! (= (umul%d (_ bv0 %d) b) (_ bv0 %d)) :pattern ((umul%d (_ bv0 %d) b)))))\n", w, w, w, w, w, w)
	}
	for _, w := range ws {
		for _, v := range ws {
			if v < w {
				fmt.Fprintf(&decl, "(assert (forall ((a (_ BitVec %d)) (b (_ BitVec %d))) (! (= ((_ extract %d 0) (umul%d a b)) (umul%d ((_ extract %d 0) a) ((_ extract %d 0) b))) :pattern ((umul%d a b)))))\n",
					w, w, v-1, w, v, v-1, v-1, w)
			}
		}
	}
	var out strings.Builder
	done := false
	for _, e := range es {
		e.write(&out)
		out.WriteByte('\n')
		if !done && e.list != nil && len(e.list) > 0 && e.list[0].atom == "set-logic" {
			out.WriteString(decl.String())
			done = true
		}
	}
	if !done {
		return "", false
	}
	return out.String(), true
}
