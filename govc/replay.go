package main

// Replay of counterexamples on the real code: the proof harnesses (lemmafn) are executable Go
// (vassert panics when false), so a model — or, when the solver gives none, a boundary-value
// search — is run through them with `go test -overlay` (nothing is written into /repo).

import (
	"encoding/json"
	"fmt"
	"go/types"
	"math/big"
	"os"
	"os/exec"
	"path/filepath"
	"regexp"
	"sort"
	"strings"

	"golang.org/x/tools/go/ssa"
)

// parseModel extracts (define-fun name () sort value) entries with scalar values.
func parseModel(out string) map[string]*big.Int {
	res := map[string]*big.Int{}
	re := regexp.MustCompile(`(?s)\(define-fun\s+(\|[^|]*\||[^\s()]+)\s+\(\)\s+(\([^()]*\)|[A-Za-z]+)\s+(.*?)\)\s*(?:\n|$)`)
	for _, m := range re.FindAllStringSubmatch(out, -1) {
		name := strings.Trim(m[1], "|")
		val := strings.TrimSpace(m[3])
		if v, ok := parseSMTValue(val); ok {
			res[name] = v
		}
	}
	return res
}

func parseSMTValue(s string) (*big.Int, bool) {
	s = strings.TrimSpace(s)
	switch {
	case s == "true":
		return big.NewInt(1), true
	case s == "false":
		return big.NewInt(0), true
	case strings.HasPrefix(s, "#x"):
		v, ok := new(big.Int).SetString(s[2:], 16)
		return v, ok
	case strings.HasPrefix(s, "#b"):
		v, ok := new(big.Int).SetString(s[2:], 2)
		return v, ok
	case strings.HasPrefix(s, "(- ") && strings.HasSuffix(s, ")"):
		v, ok := new(big.Int).SetString(strings.TrimSpace(s[3:len(s)-1]), 10)
		if ok {
			v.Neg(v)
		}
		return v, ok
	case strings.HasPrefix(s, "(_ bv"):
		var d string
		var w int
		if _, err := fmt.Sscanf(s, "(_ bv%s %d)", &d, &w); err == nil {
			v, ok := new(big.Int).SetString(d, 10)
			return v, ok
		}
	}
	v, ok := new(big.Int).SetString(s, 10)
	return v, ok
}

func stripBars(s string) string { return strings.Trim(s, "|") }

// goLiteral renders a model value as a Go expression of type t.
func goLiteral(t types.Type, v *big.Int) (string, bool) {
	b, ok := t.Underlying().(*types.Basic)
	if !ok {
		return "", false
	}
	tn := types.TypeString(t, func(p *types.Package) string { return "" })
	switch {
	case b.Info()&types.IsBoolean != 0:
		if v.Sign() != 0 {
			return "true", true
		}
		return "false", true
	case b.Info()&types.IsInteger != 0:
		bits, signed, _ := intBits(b)
		x := new(big.Int).Set(v)
		m := pow2(bits)
		x.Mod(x, m)
		if signed && x.Cmp(pow2(bits-1)) >= 0 {
			x.Sub(x, m)
		}
		if !signed {
			return fmt.Sprintf("%s(%s)", tn, x.String()), true
		}
		if x.Sign() < 0 && x.Cmp(new(big.Int).Neg(pow2(bits-1))) == 0 {
			// min value: write as -max-1
			return fmt.Sprintf("%s(-%s - 1)", tn, new(big.Int).Sub(pow2(bits-1), big.NewInt(1)).String()), true
		}
		return fmt.Sprintf("%s(%s)", tn, x.String()), true
	case b.Info()&types.IsFloat != 0:
		bits, _, _ := intBits(b)
		x := new(big.Int).Mod(v, pow2(bits))
		if bits == 32 {
			return fmt.Sprintf("%s(math.Float32frombits(%s))", tn, x.String()), true
		}
		return fmt.Sprintf("%s(math.Float64frombits(%s))", tn, x.String()), true
	}
	return "", false
}

// candidates: boundary values for a parameter type, as Go expressions.
func candidates(t types.Type) ([]string, bool) {
	tn := types.TypeString(t, func(p *types.Package) string { return "" })
	switch u := t.Underlying().(type) {
	case *types.Basic:
		switch {
		case u.Info()&types.IsBoolean != 0:
			return []string{"false", "true"}, true
		case u.Info()&types.IsInteger != 0:
			bits, signed, _ := intBits(u)
			lo, hi := minMax(bits, signed)
			set := map[string]*big.Int{}
			add := func(v *big.Int) {
				if v.Cmp(lo) >= 0 && v.Cmp(hi) <= 0 {
					set[v.String()] = new(big.Int).Set(v)
				}
			}
			for _, n := range []int64{0, 1, 2, 3, 5, 9, 10, 31, 32, 33, 100, 127, 128, 129, 253, 254, 255, 256, 257, 1000, 32767, 32768, 65535, 65536, 65537, 86400000} {
				add(big.NewInt(n))
				add(big.NewInt(-n))
			}
			for _, k := range []int{7, 8, 15, 16, 23, 24, 31, 32, 39, 40, 47, 48, 55, 56, 62, 63} {
				for _, d := range []int64{-1, 0, 1} {
					p := new(big.Int).Add(pow2(k), big.NewInt(d))
					add(p)
					add(new(big.Int).Neg(p))
				}
			}
			add(lo)
			add(hi)
			var vs []*big.Int
			for _, v := range set {
				vs = append(vs, v)
			}
			sort.Slice(vs, func(i, j int) bool { return vs[i].CmpAbs(vs[j]) < 0 })
			var out []string
			for _, v := range vs {
				l, _ := goLiteral(t, v)
				out = append(out, l)
			}
			return out, true
		case u.Info()&types.IsFloat != 0:
			return []string{tn + "(0)", tn + "(1.5)", tn + "(-2.25)", tn + "(math.Inf(1))", tn + "(math.NaN())", tn + "(3.4e38)", tn + "(1e-40)"}, true
		case u.Info()&types.IsString != 0:
			return []string{`""`, `"a"`, `"0"`, `"héllo wörld"`, `strings.Repeat("x", 253)`, `strings.Repeat("y", 254)`, `strings.Repeat("z", 255)`, `strings.Repeat("w", 65535)`, `strings.Repeat("v", 65536)`}, true
		}
	case *types.Slice:
		if eb, ok := u.Elem().Underlying().(*types.Basic); ok {
			en := types.TypeString(u.Elem(), func(p *types.Package) string { return "" })
			if eb.Info()&types.IsInteger != 0 {
				mk := func(n int) string { return fmt.Sprintf("govcSeq%s(%d)", strings.Title(en), n) }
				return []string{"nil", "[]" + en + "{}", mk(1), mk(2), mk(3), mk(253), mk(254), mk(255), mk(256), mk(32767), mk(65535), mk(65536)}, true
			}
		}
	}
	return nil, false
}

func seqHelpers(elemTypes map[string]bool) string {
	var b strings.Builder
	for en := range elemTypes {
		fmt.Fprintf(&b, "func govcSeq%s(n int) []%s { s := make([]%s, n); for i := range s { s[i] = %s(i*7 + 3) }; return s }\n", strings.Title(en), en, en, en)
	}
	return b.String()
}

// harnessesFor: lemma harnesses relevant to a failed obligation: the unit itself if it is a harness,
// otherwise harnesses of the same package whose body (transitively, depth 3) calls the function.
func harnessesFor(prog *Program, u *Unit, o *Obligation) []*ssa.Function {
	if fc := prog.cs.Funcs[u.Key]; fc != nil && fc.Lemma {
		if f := prog.findFunc(u.Key); f != nil {
			return []*ssa.Function{f}
		}
	}
	target := prog.findFunc(u.Key)
	if target == nil {
		return nil
	}
	var out []*ssa.Function
	for _, k := range prog.contractKeysSorted() {
		fc := prog.cs.Funcs[k]
		if !fc.Lemma {
			continue
		}
		h := prog.findFunc(k)
		if h == nil {
			continue
		}
		if callsTransitively(h, target, 4, map[*ssa.Function]bool{}) {
			out = append(out, h)
		}
	}
	return out
}

func callsTransitively(f, target *ssa.Function, depth int, seen map[*ssa.Function]bool) bool {
	if f == target {
		return true
	}
	if depth == 0 || seen[f] || f.Blocks == nil {
		return false
	}
	seen[f] = true
	for _, b := range f.Blocks {
		for _, ins := range b.Instrs {
			var c *ssa.CallCommon
			switch x := ins.(type) {
			case *ssa.Call:
				c = &x.Call
			case *ssa.Defer:
				c = &x.Call
			}
			if c == nil {
				continue
			}
			if callee := c.StaticCallee(); callee != nil {
				if callsTransitively(callee, target, depth-1, seen) {
					return true
				}
			}
		}
	}
	return false
}

func tryReplay(prog *Program, dir string, u *Unit, o *Obligation, rf *ReplayFile) {
	hs := harnessesFor(prog, u, o)
	if len(hs) == 0 {
		rf.Note = "no executable proof harness reaches this function; counterexample not replayed"
		return
	}
	model := map[string]*big.Int{}
	if o.Status == "sat" {
		model = parseModel(o.Model)
	}
	for _, h := range hs {
		if replayHarness(prog, dir, u, o, h, model, rf) {
			return
		}
	}
}

func replayHarness(prog *Program, dir string, u *Unit, o *Obligation, h *ssa.Function, model map[string]*big.Int, rf *ReplayFile) bool {
	pkg := h.Pkg.Pkg
	// candidate lists per parameter
	type plist struct {
		name string
		t    types.Type
		vals []string
	}
	var ps []plist
	elemTypes := map[string]bool{}
	isSelf := prog.findFunc(u.Key) == h
	for _, p := range h.Params {
		cands, ok := candidates(p.Type())
		if !ok {
			rf.Note = "harness " + h.Name() + " has a parameter of unsupported type " + p.Type().String()
			return false
		}
		if sl, ok := p.Type().Underlying().(*types.Slice); ok {
			elemTypes[types.TypeString(sl.Elem(), func(*types.Package) string { return "" })] = true
		}
		// model value first (only when the failed unit is this harness: names match)
		if isSelf && u.VC != nil {
			if pv, ok := u.Params[p.Name()]; ok && len(pv.C) == 1 {
				if mv, ok := model[stripBars(pv.C[0])]; ok {
					if lit, ok := goLiteral(p.Type(), mv); ok {
						cands = append([]string{lit}, cands...)
					}
				}
			}
		}
		ps = append(ps, plist{p.Name(), p.Type(), cands})
	}
	// cap the product
	total := 1
	for _, p := range ps {
		total *= len(p.vals)
		if total > 200000 {
			break
		}
	}
	for total > 200000 {
		// shrink the longest list
		li := 0
		for i := range ps {
			if len(ps[i].vals) > len(ps[li].vals) {
				li = i
			}
		}
		ps[li].vals = ps[li].vals[:len(ps[li].vals)*2/3+1]
		total = 1
		for _, p := range ps {
			total *= len(p.vals)
		}
	}
	var b strings.Builder
	fmt.Fprintf(&b, "//go:build verif\n\npackage %s\n\nimport (\n\t\"fmt\"\n\t\"math\"\n\t\"strings\"\n\t\"testing\"\n)\n\nvar _ = math.Inf\nvar _ = strings.Repeat\n\n", pkg.Name())
	b.WriteString(seqHelpers(elemTypes))
	fmt.Fprintf(&b, "\nfunc TestGovcReplay(t *testing.T) {\n")
	for i, p := range ps {
		tn := types.TypeString(p.t, func(pp *types.Package) string {
			if pp == pkg {
				return ""
			}
			return pp.Name()
		})
		fmt.Fprintf(&b, "\tc%d := []%s{%s}\n", i, tn, strings.Join(p.vals, ", "))
	}
	fmt.Fprintf(&b, "\ttry := func(")
	for i, p := range ps {
		tn := types.TypeString(p.t, func(pp *types.Package) string {
			if pp == pkg {
				return ""
			}
			return pp.Name()
		})
		if i > 0 {
			b.WriteString(", ")
		}
		fmt.Fprintf(&b, "a%d %s", i, tn)
	}
	b.WriteString(") (failed string) {\n\t\tdefer func() {\n\t\t\tif r := recover(); r != nil {\n\t\t\t\tif s, ok := r.(string); ok && strings.HasPrefix(s, \"vassert\") {\n\t\t\t\t\tfailed = s\n\t\t\t\t}\n\t\t\t}\n\t\t}()\n")
	fmt.Fprintf(&b, "\t\t%s(", h.Name())
	for i := range ps {
		if i > 0 {
			b.WriteString(", ")
		}
		fmt.Fprintf(&b, "a%d", i)
	}
	b.WriteString(")\n\t\treturn \"\"\n\t}\n")
	for i := range ps {
		fmt.Fprintf(&b, "%sfor _, a%d := range c%d {\n", strings.Repeat("\t", i+1), i, i)
	}
	ind := strings.Repeat("\t", len(ps)+1)
	var args, fmts []string
	for i := range ps {
		args = append(args, fmt.Sprintf("a%d", i))
		fmts = append(fmts, ps[i].name+"=%#v")
	}
	fmt.Fprintf(&b, "%sif f := try(%s); f != \"\" {\n", ind, strings.Join(args, ", "))
	shown := make([]string, len(args))
	for i := range args {
		shown[i] = "govcShow(" + args[i] + ")"
	}
	fmt.Fprintf(&b, "%s\tt.Fatalf(\"GOVC-REPLAY-FAIL harness=%s %s: %%s\", %s, f)\n%s}\n", ind, h.Name(), strings.Join(fmts, " "), strings.Join(shown, ", "), ind)
	for i := len(ps) - 1; i >= 0; i-- {
		fmt.Fprintf(&b, "%s}\n", strings.Repeat("\t", i+1))
	}
	if len(ps) == 0 {
		fmt.Fprintf(&b, "\tif f := try(); f != \"\" {\n\t\tt.Fatalf(\"GOVC-REPLAY-FAIL harness=%s: %%s\", f)\n\t}\n", h.Name())
	}
	b.WriteString("}\n\nfunc govcShow(v interface{}) interface{} {\n\tswitch x := v.(type) {\n\tcase string:\n\t\tif len(x) > 40 {\n\t\t\treturn fmt.Sprintf(\"string(len=%d,%q...)\", len(x), x[:8])\n\t\t}\n\tcase []byte:\n\t\tif len(x) > 16 {\n\t\t\treturn fmt.Sprintf(\"[]byte(len=%d)\", len(x))\n\t\t}\n\t}\n\treturn v\n}\n")
	testPath := filepath.Join(dir, shortFile(o.Name)+"_"+h.Name()+"_test.go")
	os.WriteFile(testPath, []byte(b.String()), 0o644)
	pkgDir := ""
	if pp := prog.all[pkg.Path()]; pp != nil && len(pp.GoFiles) > 0 {
		pkgDir = filepath.Dir(pp.GoFiles[0])
	}
	if pkgDir == "" {
		return false
	}
	rf.TestFile, rf.TestPkgDir, rf.TestName = testPath, pkgDir, "TestGovcReplay"
	ok, log := runReplayTest(testPath, pkgDir)
	rf.ReplayLog = log
	if ok {
		rf.Confirmed = true
		rf.Note = "the proof harness " + h.Name() + " fails its assertion on the real code for the input shown in replay_log"
		if m := regexp.MustCompile(`GOVC-REPLAY-FAIL[^\n]*`).FindString(log); m != "" {
			rf.Inputs = map[string]string{"failing": m}
		}
		return true
	}
	return false
}

// runReplayTest runs the generated test through an overlay; returns true when the harness assertion failed on real code.
func runReplayTest(testPath, pkgDir string) (bool, string) {
	ov := map[string]map[string]string{"Replace": {filepath.Join(pkgDir, "zz_govc_replay_verif_test.go"): testPath}}
	ovPath := testPath + ".overlay.json"
	ob, _ := json.Marshal(ov)
	os.WriteFile(ovPath, ob, 0o644)
	cmd := exec.Command("go", "test", "-tags", "verif", "-overlay", ovPath, "-vet=off", "-count=1", "-timeout", "120s", "-run", "^TestGovcReplay$", ".")
	cmd.Dir = pkgDir
	cmd.Env = append(os.Environ(), "GOFLAGS=-mod=mod", "GOPROXY=off", "GOSUMDB=off", "GOTOOLCHAIN=local")
	out, _ := cmd.CombinedOutput()
	s := string(out)
	if len(s) > 6000 {
		s = s[:6000]
	}
	return strings.Contains(s, "GOVC-REPLAY-FAIL"), s
}

func cmdReplay(args []string) {
	if len(args) < 1 {
		fmt.Fprintln(os.Stderr, "usage: govc replay <replay.json>")
		os.Exit(2)
	}
	b, err := os.ReadFile(args[0])
	if err != nil {
		fmt.Fprintln(os.Stderr, err)
		os.Exit(2)
	}
	var rf ReplayFile
	if err := json.Unmarshal(b, &rf); err != nil {
		fmt.Fprintln(os.Stderr, err)
		os.Exit(2)
	}
	fmt.Printf("obligation: %s\nclause: %s\nat: %s\nsolver: %s %s\n", rf.Obligation, rf.Clause, rf.Position, rf.Solver, rf.Status)
	if rf.TestFile == "" {
		fmt.Println("no executable replay for this obligation (" + rf.Note + ")")
		fmt.Println(rf.Output)
		os.Exit(1)
	}
	ok, log := runReplayTest(rf.TestFile, rf.TestPkgDir)
	fmt.Println(log)
	if ok {
		fmt.Println("REPRODUCED: the harness assertion fails on the real code")
		os.Exit(1)
	}
	fmt.Println("not reproduced on the current tree")
	os.Exit(0)
}
