package main

// Type mapping from Go types to SMT sorts ("flattening"), per arithmetic mode.

import (
	"fmt"
	"go/types"
	"math/big"
	"sort"
	"strings"
)

type Mode int

const (
	ModeBV Mode = iota
	ModeInt
)

func (m Mode) String() string {
	if m == ModeBV {
		return "bv"
	}
	return "int"
}

// ArrT is a spec-only type: an SMT array (total map) from K to V.
type ArrT struct{ K, V types.Type }

func (a *ArrT) Underlying() types.Type { return a }
func (a *ArrT) String() string         { return "map[" + a.K.String() + "]" + a.V.String() }

// SortT is a spec-only opaque SMT sort (declared in a raw smt prelude).
type SortT struct{ Name string }

func (a *SortT) Underlying() types.Type { return a }
func (a *SortT) String() string         { return "sort " + a.Name }

// MathT is the spec-only unbounded integer (always SMT Int, in both modes).
type MathT struct{}

func (a *MathT) Underlying() types.Type { return a }
func (a *MathT) String() string         { return "mathint" }

var mathT = &MathT{}

// RefT is a spec-only untyped reference.
type RefT struct{}

func (a *RefT) Underlying() types.Type { return a }
func (a *RefT) String() string         { return "ref" }

var refT = &RefT{}

// Val is a symbolic Go value: flattened SMT terms plus its Go type.
type Val struct {
	T    types.Type
	C    []string // component terms (see flat)
	Loc  *Loc     // for pointers whose target location is statically known
	Addr string   // for struct/array values that live in the heap: their address (then C is empty)
}

type LocKind int

const (
	LocLocal LocKind = iota // local Alloc cell
	LocField                // base.f
	LocElem                 // arr[idx] in element heap
	LocGlobal               // package variable
	LocCell                 // *p for scalar pointee
)

type Loc struct {
	Kind  LocKind
	Alloc interface{} // *ssa.Alloc for LocLocal
	Base  string      // ref term (field, elem: array ref, cell: ref)
	Key   string      // heap key prefix (field heap / elem heap / global / cell)
	Idx   string      // element index term (absolute)
	T     types.Type  // type of the stored value
}

type comp struct{ suf, sort string }

func intBits(b *types.Basic) (bits int, signed bool, ok bool) {
	switch b.Kind() {
	case types.Int8:
		return 8, true, true
	case types.Int16:
		return 16, true, true
	case types.Int32:
		return 32, true, true
	case types.Int64, types.Int, types.UntypedInt, types.UntypedRune:
		return 64, true, true
	case types.Uint8:
		return 8, false, true
	case types.Uint16:
		return 16, false, true
	case types.Uint32:
		return 32, false, true
	case types.Uint64, types.Uint, types.Uintptr:
		return 64, false, true
	case types.Float32:
		return 32, false, true
	case types.Float64, types.UntypedFloat:
		return 64, false, true
	}
	return 0, false, false
}

func isFloat(t types.Type) bool {
	b, ok := t.Underlying().(*types.Basic)
	return ok && b.Info()&types.IsFloat != 0
}

func isInteger(t types.Type) bool {
	if _, ok := t.(*MathT); ok {
		return true
	}
	b, ok := t.Underlying().(*types.Basic)
	return ok && b.Info()&types.IsInteger != 0
}

func isString(t types.Type) bool {
	b, ok := t.Underlying().(*types.Basic)
	return ok && b.Info()&types.IsString != 0
}

func isBool(t types.Type) bool {
	b, ok := t.Underlying().(*types.Basic)
	return ok && b.Info()&types.IsBoolean != 0
}

func (vc *VC) isort(bits int) string {
	if vc.mode == ModeBV {
		return fmt.Sprintf("(_ BitVec %d)", bits)
	}
	return "Int"
}

// idxSort is the sort of Go `int` (slice indices, lengths).
func (vc *VC) idxSort() string { return vc.isort(64) }

func (vc *VC) flat(t types.Type) []comp {
	switch u := t.Underlying().(type) {
	case *types.Basic:
		if u.Info()&types.IsBoolean != 0 {
			return []comp{{"", "Bool"}}
		}
		if bits, _, ok := intBits(u); ok {
			return []comp{{"", vc.isort(bits)}}
		}
		if u.Info()&types.IsString != 0 {
			return []comp{{"", "Str"}}
		}
		if u.Kind() == types.UnsafePointer || u.Kind() == types.UntypedNil {
			return []comp{{"", "Int"}}
		}
		if u.Kind() == types.Complex128 || u.Kind() == types.Complex64 {
			return []comp{{"", "Int"}}
		}
	case *types.Pointer, *types.Map, *types.Chan, *types.Signature:
		return []comp{{"", "Int"}}
	case *types.Slice:
		s := vc.idxSort()
		return []comp{{".arr", "Int"}, {".off", s}, {".len", s}, {".cap", s}}
	case *types.Interface:
		return []comp{{".typ", "Int"}, {".val", "Int"}}
	case *types.Struct:
		var out []comp
		for i := 0; i < u.NumFields(); i++ {
			f := u.Field(i)
			for _, c := range vc.flat(f.Type()) {
				out = append(out, comp{"." + f.Name() + c.suf, c.sort})
			}
		}
		return out
	case *types.Array:
		return []comp{{"", "Int"}}
	case *types.Tuple:
		var out []comp
		for i := 0; i < u.Len(); i++ {
			for _, c := range vc.flat(u.At(i).Type()) {
				out = append(out, comp{fmt.Sprintf(".%d%s", i, c.suf), c.sort})
			}
		}
		return out
	case *ArrT:
		k := vc.flat(u.K)
		v := vc.flat(u.V)
		if len(k) != 1 || len(v) != 1 {
			panic("spec array with composite key/value: " + u.String())
		}
		return []comp{{"", "(Array " + k[0].sort + " " + v[0].sort + ")"}}
	case *SortT:
		return []comp{{"", u.Name}}
	case *MathT:
		return []comp{{"", "Int"}}
	case *RefT:
		return []comp{{"", "Int"}}
	case *types.TypeParam:
		return []comp{{"", "Int"}}
	}
	if strings.Contains(fmt.Sprintf("%T", t.Underlying()), "opaqueType") {
		return []comp{{"", "Int"}} // go/ssa internal types (range iterators, defer stacks): an opaque handle
	}
	panic(fmt.Sprintf("flat: unsupported type %v (%T)", t, t.Underlying()))
}

func (vc *VC) sort1(t types.Type) string {
	c := vc.flat(t)
	if len(c) != 1 {
		panic("sort1: composite type " + t.String())
	}
	return c[0].sort
}

// intLit renders an integer constant of the given width in the current mode.
func (vc *VC) intLit(v *big.Int, bits int) string {
	if vc.mode == ModeBV {
		m := new(big.Int).Lsh(big.NewInt(1), uint(bits))
		x := new(big.Int).Mod(v, m)
		return fmt.Sprintf("(_ bv%s %d)", x.String(), bits)
	}
	return mathLit(v)
}

func mathLit(v *big.Int) string {
	if v.Sign() < 0 {
		return "(- " + new(big.Int).Neg(v).String() + ")"
	}
	return v.String()
}

func (vc *VC) ilit(n int64, bits int) string { return vc.intLit(big.NewInt(n), bits) }

// idx renders a constant of Go type int.
func (vc *VC) idx(n int64) string { return vc.ilit(n, 64) }

// zero value of a type.
func (vc *VC) zero(t types.Type) Val {
	cs := vc.flat(t)
	out := make([]string, len(cs))
	for i, c := range cs {
		out[i] = vc.zeroOfSort(c.sort)
	}
	return Val{T: t, C: out}
}

func (vc *VC) zeroOfSort(s string) string {
	switch {
	case s == "Bool":
		return "false"
	case s == "Int":
		return "0"
	case s == "Str":
		return "gs.empty"
	case strings.HasPrefix(s, "(_ BitVec "):
		var n int
		fmt.Sscanf(s, "(_ BitVec %d)", &n)
		return fmt.Sprintf("(_ bv0 %d)", n)
	case strings.HasPrefix(s, "(Array "):
		// (Array K V): const array of zero V
		k, v := splitArraySort(s)
		_ = k
		return "((as const " + s + ") " + vc.zeroOfSort(v) + ")"
	}
	// opaque sort: use a declared default constant
	name := "zero_" + sanitize(s)
	vc.declare(name, "(declare-const "+name+" "+s+")")
	return name
}

func splitArraySort(s string) (string, string) {
	// s = "(Array K V)"
	body := s[len("(Array ") : len(s)-1]
	depth := 0
	for i := 0; i < len(body); i++ {
		switch body[i] {
		case '(':
			depth++
		case ')':
			depth--
		case ' ':
			if depth == 0 {
				return body[:i], body[i+1:]
			}
		}
	}
	panic("bad array sort " + s)
}

func sanitize(s string) string {
	var b strings.Builder
	for _, r := range s {
		if r >= 'a' && r <= 'z' || r >= 'A' && r <= 'Z' || r >= '0' && r <= '9' || r == '_' || r == '.' {
			b.WriteRune(r)
		} else {
			b.WriteByte('_')
		}
	}
	return b.String()
}

// typeKey: stable textual key for a type (for heap names and type ids).
func typeKey(t types.Type) string {
	return types.TypeString(t, func(p *types.Package) string { return p.Path() })
}

func shortTypeKey(t types.Type) string {
	return types.TypeString(t, func(p *types.Package) string { return p.Name() })
}

// structKey: name for a struct type's field heaps.
func structKey(t types.Type) string {
	if n, ok := t.(*types.Named); ok {
		if n.Obj().Pkg() != nil {
			return n.Obj().Pkg().Name() + "." + n.Obj().Name()
		}
		return n.Obj().Name()
	}
	if a, ok := t.(*types.Alias); ok {
		return structKey(types.Unalias(a))
	}
	return sanitize(shortTypeKey(t))
}

func sortedKeys(m map[string]string) []string {
	ks := make([]string, 0, len(m))
	for k := range m {
		ks = append(ks, k)
	}
	sort.Strings(ks)
	return ks
}

func pow2(n int) *big.Int { return new(big.Int).Lsh(big.NewInt(1), uint(n)) }

func minMax(bits int, signed bool) (*big.Int, *big.Int) {
	if signed {
		return new(big.Int).Neg(pow2(bits - 1)), new(big.Int).Sub(pow2(bits-1), big.NewInt(1))
	}
	return big.NewInt(0), new(big.Int).Sub(pow2(bits), big.NewInt(1))
}

func isSpecType(t types.Type) bool {
	switch t.(type) {
	case *ArrT, *SortT, *MathT, *RefT:
		return true
	}
	return false
}

// identicalT is types.Identical extended to the spec-only types.
func identicalT(a, b types.Type) bool {
	if isSpecType(a) || isSpecType(b) {
		return isSpecType(a) && isSpecType(b) && a.String() == b.String()
	}
	return types.Identical(a, b)
}
