package main

// Contract files: //@ comment blocks, and the expression language used in them.

import (
	"fmt"
	"os"
	"path/filepath"
	"sort"
	"strconv"
	"strings"
	"unicode"
)

// ---------- expression AST ----------

type Expr interface{ String() string }

type (
	ELit    struct{ Val string }            // integer literal (decimal text) or true/false/nil
	EStr    struct{ Val string }            // string literal
	EIdent  struct{ Name string }           // identifier
	ESel    struct{ X Expr; Name string }   // x.name
	EIndex  struct{ X, I Expr }             // x[i]
	ESlice  struct{ X, Lo, Hi Expr }        // x[lo:hi]
	ECall   struct{ Fn Expr; Args []Expr }  // f(args) — spec fn, conversion, builtin
	EUn     struct{ Op string; X Expr }     // ! - ^
	EBin    struct{ Op string; X, Y Expr }  // arithmetic, comparison, logic, ==>, <==>
	EQuant  struct{ Forall bool; Vars []QVar; Body Expr; Pats [][]Expr }
	ELet    struct{ Name string; X, Body Expr }
	EStore  struct{ M, K, V Expr }          // m[k := v]
	ELam    struct{ Var QVar; Body Expr }   // mapof i T :: body   (the total map i -> body)
)

type QVar struct {
	Name string
	Type TypeExpr
}

// TypeExpr: textual spec type
type TypeExpr struct {
	Kind string // "name", "ptr", "slice", "map"
	Name string // for "name": possibly qualified pkg.T
	Elem *TypeExpr
	Key  *TypeExpr
}

func (t TypeExpr) String() string {
	switch t.Kind {
	case "ptr":
		return "*" + t.Elem.String()
	case "slice":
		return "[]" + t.Elem.String()
	case "map":
		return "map[" + t.Key.String() + "]" + t.Elem.String()
	}
	return t.Name
}

func (e *ELit) String() string   { return e.Val }
func (e *EStr) String() string   { return strconv.Quote(e.Val) }
func (e *EIdent) String() string { return e.Name }
func (e *ESel) String() string   { return e.X.String() + "." + e.Name }
func (e *EIndex) String() string { return e.X.String() + "[" + e.I.String() + "]" }
func (e *ESlice) String() string {
	lo, hi := "", ""
	if e.Lo != nil {
		lo = e.Lo.String()
	}
	if e.Hi != nil {
		hi = e.Hi.String()
	}
	return e.X.String() + "[" + lo + ":" + hi + "]"
}
func (e *ECall) String() string {
	var a []string
	for _, x := range e.Args {
		a = append(a, x.String())
	}
	return e.Fn.String() + "(" + strings.Join(a, ", ") + ")"
}
func (e *EUn) String() string  { return e.Op + e.X.String() }
func (e *EBin) String() string { return "(" + e.X.String() + " " + e.Op + " " + e.Y.String() + ")" }
func (e *EQuant) String() string {
	q := "exists"
	if e.Forall {
		q = "forall"
	}
	var vs []string
	for _, v := range e.Vars {
		vs = append(vs, v.Name+" "+v.Type.String())
	}
	return "(" + q + " " + strings.Join(vs, ", ") + " :: " + e.Body.String() + ")"
}
func (e *ELet) String() string   { return "(let " + e.Name + " = " + e.X.String() + " in " + e.Body.String() + ")" }
func (e *ELam) String() string {
	return "(mapof " + e.Var.Name + " " + e.Var.Type.String() + " :: " + e.Body.String() + ")"
}
func (e *EStore) String() string { return e.M.String() + "[" + e.K.String() + " := " + e.V.String() + "]" }

// ---------- lexer ----------

type tok struct {
	kind string // "id", "num", "str", "op", "eof"
	text string
}

type lexer struct {
	src  string
	pos  int
	toks []tok
	i    int
}

var ops3 = []string{"<==>", "==>", "&&", "||", "==", "!=", "<=", ">=", "<<", ">>", "&^", "::", ":="}

func lex(src string) ([]tok, error) {
	var out []tok
	i := 0
	for i < len(src) {
		c := src[i]
		switch {
		case c == ' ' || c == '\t' || c == '\n' || c == '\r':
			i++
		case unicode.IsLetter(rune(c)) || c == '_':
			j := i
			for j < len(src) && (unicode.IsLetter(rune(src[j])) || unicode.IsDigit(rune(src[j])) || src[j] == '_' || src[j] == '$' || src[j] == '#') {
				j++
			}
			out = append(out, tok{"id", src[i:j]})
			i = j
		case c >= '0' && c <= '9':
			j := i
			for j < len(src) && (unicode.IsLetter(rune(src[j])) || unicode.IsDigit(rune(src[j])) || src[j] == '_') {
				j++
			}
			// decimal floating-point literal: digits '.' digits
			if j+1 < len(src) && src[j] == '.' && src[j+1] >= '0' && src[j+1] <= '9' {
				j++
				for j < len(src) && src[j] >= '0' && src[j] <= '9' {
					j++
				}
			}
			out = append(out, tok{"num", src[i:j]})
			i = j
		case c == '"':
			j := i + 1
			for j < len(src) && src[j] != '"' {
				if src[j] == '\\' {
					j++
				}
				j++
			}
			if j >= len(src) {
				return nil, fmt.Errorf("unterminated string")
			}
			s, err := strconv.Unquote(src[i : j+1])
			if err != nil {
				return nil, err
			}
			out = append(out, tok{"str", s})
			i = j + 1
		case c == '\'':
			// rune literal
			j := i + 1
			for j < len(src) && src[j] != '\'' {
				if src[j] == '\\' {
					j++
				}
				j++
			}
			r, _, _, err := strconv.UnquoteChar(src[i+1:j], '\'')
			if err != nil {
				return nil, err
			}
			out = append(out, tok{"num", strconv.Itoa(int(r))})
			i = j + 1
		default:
			matched := false
			for _, o := range ops3 {
				if strings.HasPrefix(src[i:], o) {
					out = append(out, tok{"op", o})
					i += len(o)
					matched = true
					break
				}
			}
			if !matched {
				out = append(out, tok{"op", string(c)})
				i++
			}
		}
	}
	out = append(out, tok{"eof", ""})
	return out, nil
}

type parser struct {
	toks []tok
	i    int
}

func (p *parser) peek() tok { return p.toks[p.i] }
func (p *parser) next() tok { t := p.toks[p.i]; p.i++; return t }
func (p *parser) isOp(s string) bool {
	t := p.peek()
	return t.kind == "op" && t.text == s
}
func (p *parser) isID(s string) bool {
	t := p.peek()
	return t.kind == "id" && t.text == s
}
func (p *parser) expectOp(s string) {
	if !p.isOp(s) {
		panic(fmt.Sprintf("expected %q, found %q", s, p.peek().text))
	}
	p.i++
}

func ParseExpr(src string) (e Expr, err error) {
	toks, err := lex(src)
	if err != nil {
		return nil, err
	}
	p := &parser{toks: toks}
	defer func() {
		if r := recover(); r != nil {
			err = fmt.Errorf("parse %q: %v", src, r)
		}
	}()
	e = p.expr()
	if p.peek().kind != "eof" {
		panic("trailing input at " + p.peek().text)
	}
	return e, nil
}

func (p *parser) expr() Expr {
	if p.isID("forall") || p.isID("exists") {
		fa := p.next().text == "forall"
		var vars []QVar
		for {
			var names []string
			names = append(names, p.ident())
			for p.isOp(",") {
				p.i++
				names = append(names, p.ident())
			}
			t := p.typeExpr()
			for _, n := range names {
				vars = append(vars, QVar{n, t})
			}
			if p.isOp(";") || p.isOp(",") {
				p.i++
				continue
			}
			break
		}
		p.expectOp("::")
		var pats [][]Expr
		for p.isOp("{") {
			p.i++
			var pat []Expr
			pat = append(pat, p.expr())
			for p.isOp(",") {
				p.i++
				pat = append(pat, p.expr())
			}
			p.expectOp("}")
			pats = append(pats, pat)
		}
		body := p.expr()
		return &EQuant{fa, vars, body, pats}
	}
	if p.isID("mapof") {
		// map comprehension: mapof i T :: body  -- the total map that sends every i to body
		p.i++
		n := p.ident()
		t := p.typeExpr()
		p.expectOp("::")
		body := p.expr()
		return &ELam{QVar{n, t}, body}
	}
	if p.isID("let") {
		p.i++
		n := p.ident()
		p.expectOp("=")
		x := p.expr()
		if !p.isID("in") {
			panic("expected 'in'")
		}
		p.i++
		b := p.expr()
		return &ELet{n, x, b}
	}
	return p.iff()
}

func (p *parser) ident() string {
	t := p.next()
	if t.kind != "id" {
		panic("expected identifier, found " + t.text)
	}
	return t.text
}

func (p *parser) typeExpr() TypeExpr {
	if p.isOp("*") {
		p.i++
		e := p.typeExpr()
		return TypeExpr{Kind: "ptr", Elem: &e}
	}
	if p.isOp("[") {
		p.i++
		p.expectOp("]")
		e := p.typeExpr()
		return TypeExpr{Kind: "slice", Elem: &e}
	}
	if p.isID("map") {
		p.i++
		p.expectOp("[")
		k := p.typeExpr()
		p.expectOp("]")
		e := p.typeExpr()
		return TypeExpr{Kind: "map", Key: &k, Elem: &e}
	}
	n := p.ident()
	if n == "interface" && p.isOp("{") {
		p.i++
		p.expectOp("}")
		return TypeExpr{Kind: "name", Name: "interface{}"}
	}
	if p.isOp(".") {
		p.i++
		n = n + "." + p.ident()
	}
	return TypeExpr{Kind: "name", Name: n}
}

func (p *parser) iff() Expr {
	x := p.implies()
	for p.isOp("<==>") {
		p.i++
		y := p.implies()
		x = &EBin{"<==>", x, y}
	}
	return x
}

func (p *parser) implies() Expr {
	x := p.or()
	if p.isOp("==>") {
		p.i++
		var y Expr
		if p.isID("forall") || p.isID("exists") || p.isID("let") {
			y = p.expr()
		} else {
			y = p.implies()
		}
		return &EBin{"==>", x, y}
	}
	return x
}

func (p *parser) or() Expr {
	x := p.and()
	for p.isOp("||") {
		p.i++
		x = &EBin{"||", x, p.and()}
	}
	return x
}

func (p *parser) and() Expr {
	x := p.cmp()
	for p.isOp("&&") {
		p.i++
		var y Expr
		if p.isID("forall") || p.isID("exists") {
			y = p.expr()
		} else {
			y = p.cmp()
		}
		x = &EBin{"&&", x, y}
	}
	return x
}

func (p *parser) cmp() Expr {
	x := p.add()
	for {
		t := p.peek()
		if t.kind == "op" && (t.text == "==" || t.text == "!=" || t.text == "<" || t.text == "<=" || t.text == ">" || t.text == ">=") {
			p.i++
			x = &EBin{t.text, x, p.add()}
			continue
		}
		return x
	}
}

func (p *parser) add() Expr {
	x := p.mul()
	for {
		t := p.peek()
		if t.kind == "op" && (t.text == "+" || t.text == "-" || t.text == "|" || t.text == "^") {
			p.i++
			x = &EBin{t.text, x, p.mul()}
			continue
		}
		return x
	}
}

func (p *parser) mul() Expr {
	x := p.unary()
	for {
		t := p.peek()
		if t.kind == "op" && (t.text == "*" || t.text == "/" || t.text == "%" || t.text == "<<" || t.text == ">>" || t.text == "&" || t.text == "&^") {
			p.i++
			x = &EBin{t.text, x, p.unary()}
			continue
		}
		return x
	}
}

func (p *parser) unary() Expr {
	t := p.peek()
	if t.kind == "op" && (t.text == "!" || t.text == "-" || t.text == "^") {
		p.i++
		return &EUn{t.text, p.unary()}
	}
	return p.postfix()
}

func (p *parser) postfix() Expr {
	x := p.primary()
	for {
		switch {
		case p.isOp("."):
			p.i++
			x = &ESel{x, p.ident()}
		case p.isOp("("):
			p.i++
			var args []Expr
			for !p.isOp(")") {
				args = append(args, p.expr())
				if p.isOp(",") {
					p.i++
				}
			}
			p.i++
			x = &ECall{x, args}
		case p.isOp("["):
			p.i++
			if p.isOp(":") {
				p.i++
				var hi Expr
				if !p.isOp("]") {
					hi = p.expr()
				}
				p.expectOp("]")
				x = &ESlice{x, nil, hi}
				continue
			}
			i := p.expr()
			if p.isOp(":=") {
				p.i++
				v := p.expr()
				p.expectOp("]")
				x = &EStore{x, i, v}
				continue
			}
			if p.isOp(":") {
				p.i++
				var hi Expr
				if !p.isOp("]") {
					hi = p.expr()
				}
				p.expectOp("]")
				x = &ESlice{x, i, hi}
				continue
			}
			p.expectOp("]")
			x = &EIndex{x, i}
		default:
			return x
		}
	}
}

func (p *parser) primary() Expr {
	t := p.next()
	switch t.kind {
	case "num":
		s := strings.ReplaceAll(t.text, "_", "")
		if strings.Contains(s, ".") {
			if _, err := strconv.ParseFloat(s, 64); err != nil {
				panic("bad number " + t.text)
			}
			return &ELit{s} // floating-point literal (kept textually; typed by its context)
		}
		v, err := strconv.ParseUint(s, 0, 64)
		if err != nil {
			// maybe big
			panic("bad number " + t.text)
		}
		return &ELit{strconv.FormatUint(v, 10)}
	case "str":
		return &EStr{t.text}
	case "id":
		switch t.text {
		case "true", "false", "nil":
			return &ELit{t.text}
		}
		// composite type conversion heads like []byte(x) are not supported; *T(x) neither
		return &EIdent{t.text}
	case "op":
		if t.text == "(" {
			e := p.expr()
			p.expectOp(")")
			return e
		}
		if t.text == "[" && p.isOp("]") {
			// []byte(x) conversion
			p.i++
			n := p.ident()
			return &EIdent{"[]" + n}
		}
	}
	panic("unexpected token " + t.text)
}

// ---------- contract file model ----------

type Clause struct {
	View string // "" = checked against the body; "tok" etc. = abstract view used by callers that select it
	Kind string // requires, ensures, invariant, decreases, assert, ...
	Text string
	E    Expr
	Line int
	File string
}

type LoopSpec struct {
	Invariants []*Clause
	Decreases  *Clause
	Modifies   []string // optional explicit heap frame for the loop
	Asserts    []*Clause   // `loop K assert E`: proof hint proved at the end of every iteration (on each back edge, before the ghost updates); available to the invariant-preservation obligations
	Inits      []*GhostUpd // `loop K init target := value`: ghost updates executed once, each time the loop is entered (before the invariant is first checked)
	Sets       []*GhostUpd // `loop K set target := value`: ghost updates executed at the end of every iteration (on each back edge, before the invariant is re-established)
}

type FuncContract struct {
	Key       string   // "pkgname.Recv.Name" or "pkgname.Name"
	Pkg       string   // package name where declared
	Props     []string
	Mode      Mode
	ModeSet   bool
	Requires  []*Clause
	Ensures   []*Clause
	Modifies  []Expr
	ModViews  []string // view tag per Modifies entry
	ModAll    bool     // modifies * (everything)
	NoPanic   bool
	NoPanicIf *Clause // `nopanic if E`: panics are excluded only for calls whose entry state satisfies E
	Loops     map[int]*LoopSpec
	Extern    bool     // assumed, body not verified
	Trusted   bool     // contract assumed even though body exists (listed as assumption)
	Inline    bool     // always inline at call sites (no contract use)
	InlineOnly bool    // never verified stand-alone: its loop invariants are obligations of the units that inline it
	ViewOnly   bool    // only view-tagged clauses: nothing to verify against the body
	Pure      bool
	Params    []string // extern: parameter names (receiver first)
	Results   []string // extern: result names
	Lemma     bool     // a Go harness function: verify body, no callers
	Opts      map[string]string
	File      string
	Line      int
	PanicsIf  []*Clause // panics exactly when (not used for verification of callers unless nopanic)
	Ghost     []*GhostUpd
	LockMode  string
	Placeholder bool // created by an `extend` block before the main block was seen
	Private   bool      // declared in a file marked `private`: visible only to units of the declaring package (others see no contract: they inline the body)
	Monitor   []*Clause // `monitor E`: monitor invariant / rely condition at every sync.Cond.Wait of this unit
}

type GhostUpd struct {
	Target Expr
	Value  Expr
	Ret    int // `set@K target := value` (with `splitreturns`): executed only at the K-th return statement (0: at every return)
}

type SpecFn struct {
	Name    string
	Pkg     string
	Params  []QVar
	Result  TypeExpr
	Body    Expr   // nil: uninterpreted
	Rec     bool
	Opaque  bool // emitted as an uninterpreted function plus a definitional axiom triggered on its applications (not a macro)
	Pred    bool // heap-reading predicate: expanded inline at each use
	BVOnly  bool // "spec bv fn": the body is a bit-level definition used in bv mode; int-mode units see an uninterpreted function
	File    string
	Line    int
}

type GhostField struct {
	Struct string // "pkg.Type" ; "" for global
	Name   string
	Type   TypeExpr
	Pkg    string
}

type AxiomDecl struct {
	Name   string
	Pkg    string
	E      Expr
	Lemma  bool // lemma: an obligation
	Scope  string // "" (every unit of the package) | "int" | "bv": only units verified in that mode import the fact | "explicit": only units that name it in a `with` clause
	Props  []string
	Mode   Mode
	File   string
	Line   int
	Text   string
	With   []string // `with a b`: explicit-scope lemmas/axioms imported into the proof of this lemma
	Induct string // `induction n`: prove the lemma `forall .., n, .. :: P` by induction on the (integer) bound variable n
}

type TypeContract struct {
	Key       string // pkg.Type
	Pkg       string
	Props     []string
	Lock      string   // lock field name
	Guarded   []string // fields guarded by the lock; entries "Type.field" for other structs
	Invariant []*Clause
	Opts      map[string]string
	File      string
}

type ContractSet struct {
	Funcs    map[string]*FuncContract
	SpecFns  map[string]*SpecFn // key pkg.name
	Ghosts   []*GhostField
	Axioms   []*AxiomDecl
	Types    map[string]*TypeContract
	RawSMT   map[string][]string // pkg -> raw smt prelude lines (mode-tagged "bv:"/"int:"/"")
	Sorts    map[string]bool
	Files    []string
	Dups     []string
	// PkgModels: package name -> model namespaces its units use (`usemodel NAME` in any contract file of the package).
	// An `extern@NAME key` block is stored under "NAME::key" and is visible only to the units of those packages; it takes
	// precedence there over the contract stored under the plain key (a trusted model of another package's functions can
	// coexist with the verified contracts of that package).
	PkgModels map[string][]string
	// AlsoLoad: contract file -> further package patterns (relative to the repository root) that a check of the units of
	// this file must load too (`alsoload ./util/list`: an extern declared there mentions that package's types)
	AlsoLoad map[string][]string
}

func NewContractSet() *ContractSet {
	return &ContractSet{Funcs: map[string]*FuncContract{}, SpecFns: map[string]*SpecFn{}, Types: map[string]*TypeContract{}, RawSMT: map[string][]string{}, Sorts: map[string]bool{}, PkgModels: map[string][]string{}, AlsoLoad: map[string][]string{}}
}

// LoadContracts reads every zz_*_verif.go file under root.
func LoadContracts(root string) (*ContractSet, error) {
	cs := NewContractSet()
	var files []string
	filepath.Walk(root, func(path string, info os.FileInfo, err error) error {
		if err != nil {
			return nil
		}
		if info.IsDir() {
			if strings.HasPrefix(info.Name(), ".") && path != root {
				return filepath.SkipDir
			}
			return nil
		}
		b := info.Name()
		if strings.HasPrefix(b, "zz_") && strings.HasSuffix(b, "_verif.go") {
			files = append(files, path)
		}
		return nil
	})
	sort.Strings(files)
	for _, f := range files {
		if err := cs.loadFile(f); err != nil {
			return nil, err
		}
	}
	cs.Files = files
	return cs, nil
}

func (cs *ContractSet) loadFile(path string) error {
	data, err := os.ReadFile(path)
	if err != nil {
		return err
	}
	lines := strings.Split(string(data), "\n")
	pkg := ""
	for _, l := range lines {
		if strings.HasPrefix(l, "package ") {
			pkg = strings.TrimSpace(strings.TrimPrefix(l, "package "))
			break
		}
	}
	if pkg == "" {
		return fmt.Errorf("%s: no package clause", path)
	}
	// join continuation lines: a //@ line starting with "\" continues the previous clause
	type ln struct {
		text string
		no   int
	}
	var ls []ln
	for i, l := range lines {
		t := strings.TrimSpace(l)
		if strings.HasPrefix(t, "// @") {
			t = "//@" + t[4:] // gofmt rewrites //@ to // @ inside doc comments
		}
		if !strings.HasPrefix(t, "//@") {
			continue
		}
		t = strings.TrimPrefix(t, "//@")
		// strip trailing comment " -- ..."
		if k := strings.Index(t, " -- "); k >= 0 {
			t = t[:k]
		}
		tt := strings.TrimSpace(t)
		if tt == "" {
			continue
		}
		if strings.HasPrefix(tt, "\\") && len(ls) > 0 {
			ls[len(ls)-1].text += " " + strings.TrimSpace(tt[1:])
			continue
		}
		ls = append(ls, ln{tt, i + 1})
	}
	var curF *FuncContract
	var curT *TypeContract
	var curA *AxiomDecl
	filePrivate := false
	mkClause := func(kind, text string, no int) (*Clause, error) {
		e, err := ParseExpr(text)
		if err != nil {
			return nil, fmt.Errorf("%s:%d: %v", path, no, err)
		}
		return &Clause{Kind: kind, Text: text, E: e, Line: no, File: path}, nil
	}
	for _, l := range ls {
		word, rest := splitWord(l.text)
		model := ""
		if strings.HasPrefix(word, "extern@") {
			model, word = strings.TrimPrefix(word, "extern@")+"::", "extern"
		}
		switch word {
		case "private":
			// file-level: the func contracts declared below in this file are not used at call sites in units of other
			// packages (those keep seeing the function as they did before the contracts existed: through their own
			// model namespace, or by inlining its body)
			filePrivate = true
		case "alsoload":
			cs.AlsoLoad[path] = append(cs.AlsoLoad[path], strings.Fields(rest)...)
		case "usemodel":
			for _, m := range strings.Fields(strings.ReplaceAll(rest, ",", " ")) {
				cs.PkgModels[pkg] = append(cs.PkgModels[pkg], m)
			}
		case "extend":
			// extend func Name — adds (view-tagged) clauses to a contract declared in another block/file
			curT, curA = nil, nil
			kw, r2 := splitWord(rest)
			if strings.HasPrefix(kw, "extern@") {
				model, kw = strings.TrimPrefix(kw, "extern@")+"::", "extern"
			}
			if kw != "func" && kw != "extern" {
				return fmt.Errorf("%s:%d: expected 'extend func <name>' or 'extend extern <key>'", path, l.no)
			}
			nm, _ := splitWord(r2)
			key := pkg + "." + nm
			var xparams, xresults []string
			if kw == "extern" {
				// extend extern pkg.Type.Method — adds (view-tagged) clauses to a contract declared elsewhere under that absolute key
				// (an extern of another file, or a func contract of another package)
				key = model + nm
				// optional parameter/result names, `extend extern pkg.T.M(recv, a) (r)`: used only while the contract has none
				// of its own (an interface method whose extern block is elsewhere or absent; a function with a body takes
				// the names from its declaration)
				if op := strings.Index(r2, "("); op >= 0 {
					if cl := strings.Index(r2, ")"); cl > op {
						key = model + strings.TrimSpace(r2[:op])
						xparams = splitList(r2[op+1 : cl])
						if restr := strings.TrimSpace(r2[cl+1:]); strings.HasPrefix(restr, "(") {
							xresults = splitList(strings.Trim(restr, "()"))
						}
					}
				}
			}
			fc := cs.Funcs[key]
			if fc == nil {
				fc = &FuncContract{Key: key, Pkg: pkg, Loops: map[int]*LoopSpec{}, Opts: map[string]string{}, File: path, Line: l.no, Placeholder: true}
				cs.Funcs[key] = fc
			}
			if len(fc.Params) == 0 {
				fc.Params = xparams
			}
			if len(fc.Results) == 0 {
				fc.Results = xresults
			}
			curF = fc
		case "func", "extern", "lemmafn":
			curT, curA = nil, nil
			name, after := splitWord(rest)
			fc := &FuncContract{Pkg: pkg, Loops: map[int]*LoopSpec{}, Opts: map[string]string{}, File: path, Line: l.no, Private: filePrivate && word == "func"}
			if word == "extern" {
				fc.Extern = true
				// extern pkg.Recv.Name(a, b) (r0, r1)
				full := rest
				op := strings.Index(full, "(")
				if op < 0 {
					return fmt.Errorf("%s:%d: extern needs parameter list", path, l.no)
				}
				name = strings.TrimSpace(full[:op])
				cl := strings.Index(full, ")")
				fc.Params = splitList(full[op+1 : cl])
				restr := strings.TrimSpace(full[cl+1:])
				if strings.HasPrefix(restr, "(") {
					fc.Results = splitList(strings.Trim(restr, "()"))
				}
				fc.Key = model + name
			} else {
				_ = after
				fc.Key = pkg + "." + name
				if word == "lemmafn" {
					fc.Lemma = true
				}
			}
			if prev, dup := cs.Funcs[fc.Key]; dup && prev.Placeholder {
				// the main block of a contract that an `extend` block referred to earlier
				prev.Placeholder = false
				prev.File, prev.Line, prev.Lemma = path, l.no, fc.Lemma
				prev.Extern, prev.Params, prev.Results, prev.Pkg = fc.Extern, fc.Params, fc.Results, fc.Pkg
				curF = prev
				break
			}
			if prev, dup := cs.Funcs[fc.Key]; dup {
				if !(fc.Extern && prev.Extern) {
					return fmt.Errorf("%s:%d: duplicate contract for %s (also %s:%d)", path, l.no, fc.Key, prev.File, prev.Line)
				}
				// duplicate extern blocks across packages: the first one wins; the clauses of this one are parsed and dropped
				cs.Dups = append(cs.Dups, fmt.Sprintf("%s:%d duplicates extern %s of %s:%d", path, l.no, fc.Key, prev.File, prev.Line))
				curF = fc
				break
			}
			cs.Funcs[fc.Key] = fc
			curF = fc
		case "type":
			curF, curA = nil, nil
			name, _ := splitWord(rest)
			tc := &TypeContract{Key: pkg + "." + name, Pkg: pkg, Opts: map[string]string{}, File: path}
			cs.Types[tc.Key] = tc
			curT = tc
		case "spec":
			curF, curT, curA = nil, nil, nil
			sf, err := parseSpecFn(rest, pkg)
			if err != nil {
				return fmt.Errorf("%s:%d: %v", path, l.no, err)
			}
			sf.File, sf.Line = path, l.no
			cs.SpecFns[pkg+"."+sf.Name] = sf
		case "pred":
			curF, curT, curA = nil, nil, nil
			sf, err := parseSpecFn("fn "+rest, pkg)
			if err != nil {
				return fmt.Errorf("%s:%d: %v", path, l.no, err)
			}
			sf.Pred = true
			sf.File, sf.Line = path, l.no
			cs.SpecFns[pkg+"."+sf.Name] = sf
		case "ghost":
			curF, curT, curA = nil, nil, nil
			// ghost Type.field T   |  ghost var name T
			n, tr := splitWord(rest)
			toks, err := lex(tr)
			if err != nil {
				return fmt.Errorf("%s:%d: %v", path, l.no, err)
			}
			p := &parser{toks: toks}
			var te TypeExpr
			func() {
				defer func() {
					if r := recover(); r != nil {
						err = fmt.Errorf("%v", r)
					}
				}()
				te = p.typeExpr()
			}()
			if err != nil {
				return fmt.Errorf("%s:%d: %v", path, l.no, err)
			}
			g := &GhostField{Pkg: pkg, Type: te}
			if k := strings.LastIndex(n, "."); k >= 0 {
				g.Struct, g.Name = n[:k], n[k+1:]
				if !strings.Contains(g.Struct, ".") {
					g.Struct = pkg + "." + g.Struct
				}
			} else {
				g.Name = n
			}
			cs.Ghosts = append(cs.Ghosts, g)
		case "sort":
			n, _ := splitWord(rest)
			cs.Sorts[n] = true
		case "smt", "smt-bv", "smt-int":
			tag := ""
			if word == "smt-bv" {
				tag = "bv:"
			} else if word == "smt-int" {
				tag = "int:"
			}
			cs.RawSMT[pkg] = append(cs.RawSMT[pkg], tag+rest)
		case "axiom", "lemma":
			curF, curT = nil, nil
			k := strings.Index(rest, ":")
			if k < 0 {
				return fmt.Errorf("%s:%d: axiom/lemma needs 'name: expr'", path, l.no)
			}
			name := strings.TrimSpace(rest[:k])
			body := strings.TrimSpace(rest[k+1:])
			a := &AxiomDecl{Name: name, Pkg: pkg, Lemma: word == "lemma", File: path, Line: l.no, Text: body, Mode: ModeInt}
			if body != "" {
				e, err := ParseExpr(body)
				if err != nil {
					return fmt.Errorf("%s:%d: %v", path, l.no, err)
				}
				a.E = e
			}
			cs.Axioms = append(cs.Axioms, a)
			curA = a
		default:
			// clause of the current block
			switch {
			case curA != nil:
				switch word {
				case "prop":
					curA.Props = strings.Fields(rest)
				case "arith":
					if rest == "bv" {
						curA.Mode = ModeBV
					} else {
						curA.Mode = ModeInt
					}
				case "scope":
					// `scope int` / `scope bv`: import this axiom/lemma only into units of that mode (e.g. a bit-level
					// lemma proved in bv that int-mode units use as an abstract fact, without burdening bv units with it);
					// `scope explicit`: import it only into units whose contract says `with <name> ...`
					if rest != "int" && rest != "bv" && rest != "explicit" {
						return fmt.Errorf("%s:%d: scope must be int, bv or explicit", path, l.no)
					}
					curA.Scope = rest
				case "with":
					curA.With = strings.Fields(strings.ReplaceAll(rest, ",", " "))
				case "induction":
					// proof method for a lemma `forall ..., n T, ... :: P(n)`: the obligation becomes
					//   forall ..., n, ... :: (n > 0 ==> P(n-1)) ==> P(n)
					// (other bound variables fixed).  Sound: for n <= 0 P(n) is proved outright, for n > 0 from P(n-1).
					curA.Induct = strings.TrimSpace(rest)
				case "body":
					e, err := ParseExpr(rest)
					if err != nil {
						return fmt.Errorf("%s:%d: %v", path, l.no, err)
					}
					curA.E, curA.Text = e, rest
				default:
					return fmt.Errorf("%s:%d: unknown axiom clause %q", path, l.no, word)
				}
			case curF != nil:
				if err := parseFuncClause(curF, word, rest, l.no, mkClause); err != nil {
					return fmt.Errorf("%s:%d: %v", path, l.no, err)
				}
			case curT != nil:
				switch word {
				case "prop":
					curT.Props = strings.Fields(rest)
				case "lock":
					curT.Lock = rest
				case "guarded":
					curT.Guarded = append(curT.Guarded, splitList(rest)...)
				case "invariant":
					c, err := mkClause("invariant", rest, l.no)
					if err != nil {
						return err
					}
					curT.Invariant = append(curT.Invariant, c)
				default:
					curT.Opts[word] = rest
				}
			default:
				return fmt.Errorf("%s:%d: clause %q outside any block", path, l.no, word)
			}
		}
	}
	return nil
}

func parseFuncClause(f *FuncContract, word, rest string, no int, mk func(kind, text string, no int) (*Clause, error)) error {
	view := ""
	if k := strings.Index(word, "@"); k >= 0 {
		view = word[k+1:]
		word = word[:k]
	}
	switch word {
	case "prop":
		// accumulate: an `extend` block in another file may add a property tag to a unit (whichever file is read first)
		for _, pr := range strings.Fields(rest) {
			if !hasProp(f.Props, pr) {
				f.Props = append(f.Props, pr)
			}
		}
	case "uses":
		// accumulate for the same reason
		for _, u := range strings.Fields(rest) {
			if !hasProp(strings.Fields(f.Opts["uses"]), u) {
				f.Opts["uses"] = strings.TrimSpace(f.Opts["uses"] + " " + u)
			}
		}
	case "arith":
		f.ModeSet = true
		if rest == "bv" {
			f.Mode = ModeBV
		} else if rest == "int" {
			f.Mode = ModeInt
		} else {
			return fmt.Errorf("arith must be bv or int")
		}
	case "requires", "ensures":
		c, err := mk(word, rest, no)
		if err != nil {
			return err
		}
		c.View = view
		if word == "requires" {
			f.Requires = append(f.Requires, c)
		} else {
			f.Ensures = append(f.Ensures, c)
		}
	case "modifies":
		if strings.TrimSpace(rest) == "*" {
			f.ModAll = true
			return nil
		}
		for _, s := range splitTop(rest) {
			e, err := ParseExpr(s)
			if err != nil {
				return err
			}
			f.Modifies = append(f.Modifies, e)
			f.ModViews = append(f.ModViews, view)
		}
	case "nopanic":
		f.NoPanic = true
		if r := strings.TrimSpace(rest); strings.HasPrefix(r, "if ") {
			c, err := mk("nopanic-if", strings.TrimSpace(r[3:]), no)
			if err != nil {
				return err
			}
			f.NoPanicIf = c
		}
	case "trusted":
		f.Trusted = true
	case "inline":
		f.Inline = true
	case "inlineonly":
		// the block only supplies loop invariants (checked in every inlining context); the function is not a unit of its own
		f.Inline = true
		f.InlineOnly = true
	case "viewonly":
		// the block only carries view-tagged (abstract) clauses, which are never checked against the body: no unit.
		// (ignored when the block also has untagged clauses: those are verified as usual)
		f.ViewOnly = true
	case "pure":
		f.Pure = true
	case "lockmode":
		f.LockMode = rest
	case "loop":
		// loop K invariant E | loop K decreases E | loop K modifies ...
		ks, r2 := splitWord(rest)
		k, err := strconv.Atoi(ks)
		if err != nil {
			return fmt.Errorf("loop ordinal: %v", err)
		}
		kind, r3 := splitWord(r2)
		ls := f.Loops[k]
		if ls == nil {
			ls = &LoopSpec{}
			f.Loops[k] = ls
		}
		switch kind {
		case "invariant":
			c, err := mk("invariant", r3, no)
			if err != nil {
				return err
			}
			ls.Invariants = append(ls.Invariants, c)
		case "decreases":
			c, err := mk("decreases", r3, no)
			if err != nil {
				return err
			}
			ls.Decreases = c
		case "assert":
			c, err := mk("assert", r3, no)
			if err != nil {
				return err
			}
			ls.Asserts = append(ls.Asserts, c)
		case "set", "init":
			k := strings.Index(r3, ":=")
			if k < 0 {
				return fmt.Errorf("loop ghost update needs :=")
			}
			t, err := ParseExpr(r3[:k])
			if err != nil {
				return err
			}
			v, err := ParseExpr(r3[k+2:])
			if err != nil {
				return err
			}
			if kind == "init" {
				ls.Inits = append(ls.Inits, &GhostUpd{Target: t, Value: v})
			} else {
				ls.Sets = append(ls.Sets, &GhostUpd{Target: t, Value: v})
			}
		default:
			return fmt.Errorf("unknown loop clause %q", kind)
		}
	case "ghost", "set":
		// set target := value   (ghost update executed at normal return; `ghost` cannot be used as the clause word
		// inside a func block because it opens a ghost declaration block)
		k := strings.Index(rest, ":=")
		if k < 0 {
			return fmt.Errorf("ghost update needs :=")
		}
		t, err := ParseExpr(rest[:k])
		if err != nil {
			return err
		}
		v, err := ParseExpr(rest[k+2:])
		if err != nil {
			return err
		}
		gu := &GhostUpd{Target: t, Value: v}
		if view != "" {
			if n, e := strconv.Atoi(view); e == nil {
				gu.Ret = n
			} else {
				return fmt.Errorf("set@K: K must be the ordinal of a return statement")
			}
		}
		f.Ghost = append(f.Ghost, gu)
	case "monitor":
		// monitor E — the monitor invariant of the condition variable's lock: proved immediately before every
		// sync.Cond.Wait executed by this unit (Wait releases the lock, so other goroutines must find E), and assumed
		// right after it (every goroutine re-establishes E before it releases the lock; old(...) parts are the rely
		// condition: what no other goroutine changes)
		c, err := mk(word, rest, no)
		if err != nil {
			return err
		}
		f.Monitor = append(f.Monitor, c)
	case "panicsif":
		c, err := mk(word, rest, no)
		if err != nil {
			return err
		}
		f.PanicsIf = append(f.PanicsIf, c)
	default:
		f.Opts[word] = rest
	}
	return nil
}

func parseSpecFn(rest, pkg string) (*SpecFn, error) {
	// fn name(a T, b U) R = body   |  fn name(a T) R   | rec fn ...
	sf := &SpecFn{Pkg: pkg}
	w, r := splitWord(rest)
	if w == "rec" {
		sf.Rec = true
		w, r = splitWord(r)
	}
	if w == "opaque" {
		sf.Opaque = true
		w, r = splitWord(r)
	}
	if w == "bv" {
		sf.BVOnly = true
		w, r = splitWord(r)
	}
	if w != "fn" {
		return nil, fmt.Errorf("expected 'spec fn'")
	}
	body := ""
	sig := r
	if k := indexTopEq(r); k >= 0 {
		sig = strings.TrimSpace(r[:k])
		body = strings.TrimSpace(r[k+1:])
	}
	toks, err := lex(sig)
	if err != nil {
		return nil, err
	}
	p := &parser{toks: toks}
	var perr error
	func() {
		defer func() {
			if rr := recover(); rr != nil {
				perr = fmt.Errorf("%v", rr)
			}
		}()
		sf.Name = p.ident()
		p.expectOp("(")
		for !p.isOp(")") {
			var names []string
			names = append(names, p.ident())
			for p.isOp(",") {
				p.i++
				names = append(names, p.ident())
			}
			t := p.typeExpr()
			for _, n := range names {
				sf.Params = append(sf.Params, QVar{n, t})
			}
			if p.isOp(";") || p.isOp(",") {
				p.i++
			}
		}
		p.i++
		if p.peek().kind == "eof" {
			sf.Result = TypeExpr{Kind: "name", Name: "bool"}
		} else {
			sf.Result = p.typeExpr()
		}
	}()
	if perr != nil {
		return nil, perr
	}
	if body != "" {
		e, err := ParseExpr(body)
		if err != nil {
			return nil, err
		}
		sf.Body = e
	}
	return sf, nil
}

// indexTopEq finds a single '=' (not ==, <=, >=, !=, :=, ==>) at top level.
func indexTopEq(s string) int {
	depth := 0
	for i := 0; i < len(s); i++ {
		switch s[i] {
		case '(', '[':
			depth++
		case ')', ']':
			depth--
		case '=':
			if depth == 0 {
				prev := byte(' ')
				if i > 0 {
					prev = s[i-1]
				}
				nxt := byte(' ')
				if i+1 < len(s) {
					nxt = s[i+1]
				}
				if prev != '=' && prev != '<' && prev != '>' && prev != '!' && prev != ':' && nxt != '=' {
					return i
				}
			}
		}
	}
	return -1
}

func splitWord(s string) (string, string) {
	s = strings.TrimSpace(s)
	k := strings.IndexAny(s, " \t")
	if k < 0 {
		return s, ""
	}
	return s[:k], strings.TrimSpace(s[k+1:])
}

func splitList(s string) []string {
	var out []string
	for _, p := range strings.Split(s, ",") {
		p = strings.TrimSpace(p)
		if p != "" {
			out = append(out, p)
		}
	}
	return out
}

// splitTop splits on commas that are not inside brackets/parens.
func splitTop(s string) []string {
	var out []string
	depth, start := 0, 0
	for i := 0; i < len(s); i++ {
		switch s[i] {
		case '(', '[':
			depth++
		case ')', ']':
			depth--
		case ',':
			if depth == 0 {
				out = append(out, strings.TrimSpace(s[start:i]))
				start = i + 1
			}
		}
	}
	if t := strings.TrimSpace(s[start:]); t != "" {
		out = append(out, t)
	}
	return out
}

// ---- views ----

// noUnit: the block is not a verification unit of its own (loop invariants for inlining contexts only, or abstract
// view clauses only).
func (f *FuncContract) noUnit() bool {
	return f.InlineOnly || (f.ViewOnly && !f.hasTagged(""))
}

// hasTagged: the contract has at least one clause tagged with view v.
func (f *FuncContract) hasTagged(v string) bool {
	for _, c := range f.Requires {
		if c.View == v {
			return true
		}
	}
	for _, c := range f.Ensures {
		if c.View == v {
			return true
		}
	}
	for _, mv := range f.ModViews {
		if mv == v {
			return true
		}
	}
	return false
}

func (f *FuncContract) hasView(v string) bool {
	if v == "" {
		return true
	}
	for _, c := range f.Requires {
		if c.View == v {
			return true
		}
	}
	for _, c := range f.Ensures {
		if c.View == v {
			return true
		}
	}
	for _, mv := range f.ModViews {
		if mv == v {
			return true
		}
	}
	return false
}

// applicable: the contract has something to say to a caller that selected view v ("" = none): clauses of the view
// it will use, or a flag (pure / modifies *) that is not tied to a view. A contract that consists of clauses for OTHER
// views only is not applicable: the callee is then inlined (always sound) instead of being replaced by an empty contract.
func (f *FuncContract) applicable(v string) bool {
	use := f.selectView(v)
	if len(clausesFor(f.Requires, use)) > 0 || len(clausesFor(f.Ensures, use)) > 0 || len(f.modifiesFor(use)) > 0 {
		return true
	}
	if f.ModAll || f.Pure {
		return true
	}
	// extern / trusted blocks without any view-tagged clause keep their meaning (assumed contract `true`)
	tagged := false
	for _, c := range f.Requires {
		tagged = tagged || c.View != ""
	}
	for _, c := range f.Ensures {
		tagged = tagged || c.View != ""
	}
	for _, mv := range f.ModViews {
		tagged = tagged || mv != ""
	}
	return (f.Extern || f.Trusted) && !tagged
}

func clausesFor(cs []*Clause, v string) []*Clause {
	var out []*Clause
	for _, c := range cs {
		if c.View == v {
			out = append(out, c)
		}
	}
	return out
}

func (f *FuncContract) modifiesFor(v string) []Expr {
	var out []Expr
	for i, m := range f.Modifies {
		if f.ModViews[i] == v {
			out = append(out, m)
		}
	}
	return out
}

// selectView: the first of the unit's views (space-separated list) for which this contract has tagged clauses; "" = the
// untagged (body-checked) contract.
func (f *FuncContract) selectView(unitViews string) string {
	for _, tv := range strings.Fields(unitViews) {
		if f.hasView(tv) {
			return tv
		}
	}
	return ""
}
