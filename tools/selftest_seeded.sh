#!/bin/bash
# Must-fail corpus: re-applies every seeded change of /verif/seeded/<id>/patch.diff to a scratch worktree of /repo's HEAD and
# runs the property checks that are recorded as catching it; reports a seeded change that is no longer caught.
# usage: selftest_seeded.sh [id ...]      (default: all)
export GOFLAGS=-mod=mod GOPROXY=off GOSUMDB=off GOTOOLCHAIN=local
cd /verif || exit 2
ids="$@"
[ -z "$ids" ] && ids=$(ls seeded)
rc=0
for id in $ids; do
  d=seeded/$id
  [ -f $d/patch.diff ] || continue
  props=$(python3 -c "
import json,sys
m=json.load(open('$d/meta.json'))
print(' '.join(c.split(':')[0] for c in m.get('checks',[]) if 'exit=1' in c))")
  [ -z "$props" ] && { echo "$id: no catching check recorded"; continue; }
  WT=/tmp/selfwt_$id
  rm -rf $WT; git -C /repo worktree prune
  git -C /repo worktree add --detach $WT HEAD >/dev/null 2>&1 || { echo "$id: worktree failed"; rc=2; continue; }
  if ! git -C $WT apply $PWD/$d/patch.diff 2>/tmp/selftest_apply.err; then
    echo "$id: patch no longer applies ($(head -1 /tmp/selftest_apply.err))"
    git -C /repo worktree remove --force $WT; continue
  fi
  for P in $props; do
    out=$(bin/govc check -p $P -root $WT 2>&1); ex=$?
    nv=$(echo "$out" | grep -c '^VIOLATION')
    git -C /verif checkout -- evidence/$P.json 2>/dev/null
    if [ $ex -eq 1 ] && [ $nv -gt 0 ]; then
      echo "$id: caught by $P ($nv violations; first: $(echo "$out" | grep -m1 '^VIOLATION' | sed 's/.*obligation=//' | cut -c1-110))"
    else
      echo "$id: NOT caught by $P any more (exit=$ex)"; rc=1
    fi
  done
  git -C /repo worktree remove --force $WT
done
exit $rc
