#!/usr/bin/env python3
"""Regenerates /verif/MANIFEST.json from the table below (claimed checks + not_applicable)."""
import json, subprocess

TECH = "contract-based deductive verification (own VC generator over go/ssa, z3/cvc5)"
BASE_NOTE = "Trusted base: go/packages+go/types+go/ssa as the semantics of Go, the govc VC generator and memory model, the SMT solvers, slice/stream sizes < 2^61. Assumed external contracts and axioms are listed per run in the evidence file (assumptions)."
CLAIMED = {
    # id: (category, text, design_ref, level_note, technique)
    "C01": ("proof",
            "Byte-level contracts on every io helper (bit-vector arithmetic) and on every DataOutputX.Write*/DataInputX.Read* "
            "(appends exactly enc(v) / returns dec of bytes that were present), against big-endian two's-complement spec functions "
            "written from the statement; round-trip, canonical-length and exact-consumption lemmas are proof harnesses verified "
            "against the callee contracts. All inputs, no bound.",
            "DESIGN.md §4 C01",
            BASE_NOTE + " Assumed: bytes.Buffer model (Write/WriteByte/Read/Bytes/Reset/NewBuffer), math.Float*bits as bit casts. "
            "tcp-backed DataInputX is outside the contracts (requires tcp == nil). Of the typed-array writers/readers only the text-array pair (WriteTextArray/ReadTextArray) has no byte-level contract. A semantics canary (io.verif_int3_truncates) pins Go's wrapping arithmetic in contracts that cross the two arithmetic modes.",
            TECH),
    "C02": ("proof",
            "Per value type a round-trip harness over the token view of io: decode(encode(v)) consumes the stream exactly, re-encodes to the same token stream and restores every field (floats bit-identical); "
            "the factory returns a fresh empty value of the tagged type for each implemented code and panics otherwise; WriteValue/ReadValue unfolded per dynamic type (tag harnesses); lists and both map types with loop invariants: "
            "same length, same keys in the same order, elements pairwise equal (valeq) — nesting to any depth by structural induction over the composite value token.",
            "DESIGN.md §4 C02",
            BASE_NOTE + " Token view of io assumed (abstraction of the byte-level contracts of C01). The insertion-ordered-dictionary model of hmap.StringKeyLinkedMap/IntKeyLinkedMap used here (namespace hmapv) is no longer merely trusted: every clause of it is proved to follow from C09's verified contracts under an explicit abstraction mapping (util/hmap/zz_model_verif.go, 55 harnesses); "
            "what remains assumed about it: max == 0 (no eviction), that clients only hold maps satisfying the representation invariant, and the frame of Put/Remove with respect to OTHER maps; valeq is an uninterpreted equivalence; the induction over value trees is a meta-argument. Byte layouts are pinned by C01, at value level the frozen harnesses are the reference encoder.",
            TECH),
    "C03": ("proof",
            "Factory: for EVERY 16-bit code CreatePack returns nil exactly for unregistered codes and otherwise a fresh pack of the one registered concrete type whose GetPackType() is that code; every registered type's own tag selects its own type. "
            "Both forms of the common header. Per pack / record type a round-trip harness derived from the AST of Write and frozen (hand edits marked): decode(encode(p)) consumes exactly, re-encodes to the identical token stream, "
            "restores every carried field under the version bytes and presence flags Write uses. Containers through composite tokens: one inner pack is one token whose payload is the pack (WritePack/ReadPack contract = the per-type harnesses + factory); "
            "CompositePack, ZipPack and LogSinkZipPack (with and without compression) return their inner packs unchanged, in order and stamped with the container's identity fields; record lists (StatError, SMDownCheck, TCP port records) likewise. Loops by invariants: any number of records.",
            "DESIGN.md §4 C03, §10.4",
            BASE_NOTE + " Token view of io assumed. gzip is a TRUSTED inverse pair (UnZip(DoZip(b)) has b's bytes). The type-tag framing inside WritePack/ReadPack is abstracted by the composite token (rests on the factory harness). "
            "The packs whose tables are hmap linked maps (EventPack, ParamPack, ExtensionPack, StatRemoteIpPack, StatUserAgentPack) are verified over the TRUSTED insertion-ordered dictionary model of lang/value (namespace hmapv), with the stated size preconditions (EventPack <= 251 own attributes, no reserved keys; StatRemoteIp/UserAgent within their eviction bound). "
            "SMDiskPerf/SMNetPerf/SMProcPerf/SMLogEvent list packs over an uninterpreted record equality justified by each record's own harness; TransactionRec for all record versions with nil tables; ProfilePack over TxRecord's C08 contracts. "
            "Stat*Pack record lists over container/list (trusted append-only list model): the real SetRecordsList then the real GetRecords return every record, any count 0..65535 (StatSqlPack, StatHttpcPack; the two transaction packs verify but are too slow to be claimed). "
            "CounterPack1: the encode side of the plain configuration is a staged contract (fresh stream, both short arrays <= 255) and the readers of the absent optional sections are under contract; its decode harness is 2 of 274 obligations short (element-wise equality of the two short arrays) and is NOT claimed. "
            "Not under contract: CounterPack1's full round trip, ProcPerf's own record harness, SMBasePack (a seeded change there is not caught), the raw-tag-bytes branch of TagCountPack/TagLogPack/LogSinkPack.Write (C05 covers the writer side), StatGeneralPack.writeTable, Stat*Pack.SetRecords over hmap enumerations. Ten genuine deviations are known findings (ServerInfoPack, SMExtension, 16-bit hit counters, constant Count slots, EventPack count byte, unbounded 16-bit record count).",
            TECH),
    "C04": ("proof",
            "No fabrication: every io Read* that returns normally consumed bytes that were present (postcondition of ReadBytes and of every reader built on it, byte-level contracts); "
            "strict-prefix harnesses: after decoding a strict prefix of a valid encoding the statement following the read is unreachable (the read panics) for int, long, decimal, blob, text, "
            "int-length bytes and a field sequence; allocation budget obligations at every make fed by decoded data in io (ReadBytes, typed arrays, decimal arrays): bytes allocated <= a "
            "stated function of the input size in the ENTRY state, so also on paths that panic later; the same budget obligations for the count-prefixed decoders above io (ListValue.Read, TextPack.Read, the server-monitoring pack readers) as second, byte-level units of the same functions; ReadIntBytesLimit never returns more than its limit; loops have variants.",
            "DESIGN.md §4 C04",
            BASE_NOTE + " Decoders above io (values, packs, steps, records) inherit no-fabrication because every token read bottoms out in ReadBytes; the allocation budget is per make site (not cumulative) and element decoders called from a list's loop are abstracted in the list's unit (they are their own units); counts carried in 8 or 16 bits (CompositePack, record lists, text arrays) are bounded by the field width and not checked against the input. tcp-backed inputs are outside the contracts.",
            TECH),
    "C05": ("proof",
            "Frame: makeData builds exactly [10][0] be64(project code) be64(hash of the license in effect) be32(n) payload with payload = be16(pack type) ++ body (byte-level contracts, WriteHeader family included); license hash = the table-driven 64-bit fold (C15). "
            "Body: hand-written, declarative token layouts — the reference encoder — as postconditions of the REAL Write of the common header (both forms; form 1's first byte is <= 8 so it never equals the marker 9) and of the hit-map, text, zip, tag-count, log-sink (+ResetTagHash), parameter, event and counter packs, "
            "position by position (kind and payload of every token, nested blobs addressed through their origin array, loops by invariants), with the frame 'everything before is unchanged'. The tag hash on the wire is proved to be Hash64 of exactly the spliced tag bytes. "
            "A change of order, width, marker, version byte or presence flag in a writer fails a layout obligation even when the reader is changed consistently (25 such mutations tried, all caught).",
            "DESIGN.md §4 C05, §10.4",
            BASE_NOTE + " Each token kind has a fixed byte image by io's byte-level contracts (C01); the token view itself is an assumed abstraction. The layouts were written from the Go writers and the Java-port comments in them (no protocol document is available offline), so they pin the CURRENT wire format rather than an external standard. "
            "CounterPack1 is covered for the configuration NewCounterPack1 produces (optional DB-pool/netstat/websocket/extra/meter sections absent: precondition cpPlain); the element-wise clause of ActiveStat is proved only as a loop invariant. Trusted: hmap dictionary model (insertion-ordered), fmt.Sprintf(\"%d\"), value/pack equivalence axioms. "
            "Three byte(len) truncations are known findings; a stale cached tag hash after PutTag is an executable-witness observation (not expressible at token level).",
            TECH),
    "C06": ("other",
            "PARTIAL, by design of the technique: the sequential, per-function part of the property is proved, the scheduling part only through a lock discipline. Proved (contracts over a ghost model of the outgoing byte stream and a ghost frame log): "
            "makeData builds exactly one frame (source 10, version 0, project code, hash of the license in effect, length, pack type); send appends exactly that buffer once and in order or, on error, a prefix to a writer that is then sticky-failed; "
            "invariant: a stream that is not a whole number of frames belongs to a writer that refuses every further byte; Connect yields a fresh writer with an empty stream (a partial frame's buffered tail never reaches a new connection); "
            "sendDirect holds the process-wide send lock for the whole frame + flush and releases it on every exit, closes the connection on a send error; SendFlush in queue mode returns nil iff the element was enqueued at the tail; "
            "SendAndClear emits one frame per queued element in FIFO order and on error keeps the rest of the queue untouched; Flush/SendAndClear are total on a client that never connected. Lock discipline: every access to conn/wr by every exported method and by the queue goroutine must hold the send lock — "
            "the seven places where it does not are genuine races (known findings) and are exactly the schedules under which frames can interleave.",
            "DESIGN.md §4 C06, §10.4",
            BASE_NOTE + " TRUSTED models of bufio.Writer (Write accepts all or a prefix + sticky error, Flush, Buffered), net.Conn (Close, SetWriteDeadline), net.DialTimeout, bufio.NewWriterSize, fmt.Errorf/errors.New, logger methods; Pack and TcpClientOption are arbitrary interface values (the per-send license override is only existentially specified). "
            "NOT decided: interleavings beyond the lock discipline, process() as a whole (select/ctx not modelled; its body is covered by the lock unit only), TCP-level delivery and what the peer receives, timing of reconnection, liveness.",
            TECH),
    "C07": ("proof",
            "For each UDP pack type a proof harness derived from the AST of Write and frozen: decode(encode(p)) at the same (symbolic) version consumes the "
            "stream exactly, re-encodes to the same token stream (checked token by token) and restores every field Write emits under the version gate under "
            "which it emits it — all version numbers at once. Pool hygiene: the state after Clear() is independent of the state before it, field by field "
            "(fields enumerated from go/types at run time). Numeric-as-text fields via assumed strconv inverse pair.",
            "DESIGN.md §4 C07",
            BASE_NOTE + " The codec layer is verified over the token view of io (ensures@tok), an abstraction of io's byte-level contracts justified by the C01 lemmas (trusted meta-argument). "
            "Not covered: CreatePack/ClosePack through sync.Pool, UdpActiveStatsPack (text joined/split by strings/strconv), the password-masking clause (strings/maps: outside the verifier), transaction-start length caps.",
            TECH),
    "C08": ("proof",
            "Round-trip harnesses (derived from the Write ASTs, frozen) for every profile step type and the transaction record over the token view of io: decode(encode(s)) consumes exactly, re-encodes to the same token stream "
            "and restores every field under the version/flag gates Write uses; tagged form: CreateStep(tag) has the step's own type for every tag a step reports, WriteStep/ReadStep agree; step sequences "
            "(ToBytesStep/ToSteps) by loop invariants: same length, same order, element-wise equal; skip-ahead contracts: a reader positioned after step k is positioned at step k+1 (self-delimiting).",
            "DESIGN.md §4 C08",
            BASE_NOTE + " Token view of io assumed (abstraction of C01's byte-level contracts). Trusted value/hmap models as in C02. Two genuine defects of TxRecord's custom-field section are recorded as known findings.",
            TECH),
    "C12": ("proof",
            "Representation invariant (chains hold exactly the stored entries of their bucket, keys pairwise distinct, count == number of stored keys via a ghost bijection) and a ghost map view for IntIntMap, IntKeyMap, IntSet, StringSet; "
            "every public operation is specified over the WHOLE view (result, previous value, size, other keys unchanged): Get, ContainsKey, ContainsValue, Put, Add, AddIfExist, Remove, Clear, PutAll; rehash proved (not trusted) for all four; "
            "enumerators: the cursor determines the set still to come, each Next removes exactly the returned element, HasMoreElements == (seen < count), KeyArray returns every key exactly once; "
            "IntIntMap ToBytes/ToObject round trip in the token view. Histories of any length by induction over the invariant; short-history harnesses run on the real code too.",
            "DESIGN.md §5 C12",
            BASE_NOTE + " Assumed: count < 2^61; callers do not hold the map's lock; float-derived thresholds are arbitrary (every Put is proved with and without growth); string == is value identity; hash.Hash for StringSet through its spec fold. "
            "Not covered: IntIntMap.Sort, Clone/HashCode/ToString of entries, ValueArray multiset equality. Three genuine deviations from the set/map model are known findings.",
            TECH),
    "C09": ("proof",
            "Eleven of the thirteen linked types (IntKey, LongKey, StringKey, IntInt, IntFloat, LongFloat, LongLong, StringInt, StringLong linked maps; Int and String linked sets), contracts generated from one hand-written template and verified per type: "
            "representation = order list as a window ord[lo..hi) of a ghost index map with the header sentinel at both ends, per-bucket ghost cells, dictionary view ent: key -> entry; every public operation against the WHOLE view: "
            "Get/ContainsKey/ContainsValue/GetLRU, remove, put in all four modes (existing key: in-place update with forced moves and no eviction; new key: placed at the stated end, eviction from the opposite end, size after the call <= max), "
            "rehash (proved with loop-level ghost updates), clear, Put*/Remove* wrappers, first/last accessors, Size/IsEmpty/IsFull/SetMax, constructors for every capacity >= 0, enumerators and KeyArray in list order, ToString, Sort (no panic, the slice holds the window in order, representation restored); all nopanic. "
            "LinkedMap and LinkedSet (user-defined Hash/Equals) at the order-list level only. Histories of any length follow by induction over the representation predicate.",
            "DESIGN.md §4 C09, §10.4",
            BASE_NOTE + " Assumed: sort.Sort only permutes its slice (so the ORDER after Sort is not derived), sync.Mutex model, fmt/bytes/container/list calls, string hashes through the postconditions of hash.HashStr/stringutil.HashCode, remainder by a variable divisor as an abstract function with its range facts (`absrem`), n < 2^60. "
            "LinkedMap/LinkedSet: put/remove/clear are assumed frames, LinkedKey.Hash/Equals unconstrained, rehash/Get/Contains not under contract. Not under contract on any type: Add*/addNoOver, ToBytes/ToObject, SetNullValue, Unipoint, GetKeySet. "
            "These contracts are private to package hmap: the codec layers keep their own trusted dictionary model. About 90 of 15500 obligations (in the put units) need the solver portfolio (1-50 s on a loaded machine).",
            TECH),
    "C10": ("proof",
            "Lock discipline as ghost state held(mutex): for every exported method of every hash map/set, the linked list and both request queues (enumerated from go/types) "
            "govc proves Lock() is only called when not held (sync.Mutex is not re-entrant: self-deadlock), every access to a field written under the lock happens while it is held "
            "(static race freedom for all schedules), and the lock is released on every normal and panicking exit; callees are inlined so helper methods are checked in context. "
            "Unlocked accesses found on the unchanged tree are genuine races recorded in known_findings.json.",
            "DESIGN.md §2.6, §4 C10",
            BASE_NOTE + " Assumed: sync.Mutex/Locker/Cond contracts. Linearizability follows from whole-duration critical sections plus the sequential contracts by the standard coarse-grained-locking meta-theorem (stated, not machine-checked); liveness/fairness are not expressible.",
            TECH),
    "C11": ("proof",
            "Sequential contracts of both request queues over the verified linked list's ghost sequence: Put accepts iff not full and appends at the tail, a refused put leaves the content unchanged and logs the element "
            "to the failure callback; PutForce evicts exactly the oldest elements in order to the overflow callback and leaves size == capacity; GetNoWait/Get return and remove the head (Get: of the content at the last wake-up); "
            "GetTimeout returning nil implies the ghost clock advanced by at least the timeout; the double queue serves queue 1 before queue 2; executable FIFO/refusal/eviction/priority harnesses; all nopanic with nil callbacks.",
            "DESIGN.md §5 C11",
            BASE_NOTE + " Assumed: callbacks only append to a ghost log, monotone clock (SystemNow/Sleep), sync.NewCond, the monitor invariant at wake-up from Cond.Wait (proved before each Wait). "
            "Exactly-once delivery under concurrency follows from C10's lock discipline plus these sequential contracts (linearizability meta-argument); liveness (returns as soon as an element is available) is not expressible.",
            TECH),
    "C13": ("proof",
            "Representation predicate and sequence view for the five typed lists and the linked list; every accessor/mutator against the view (append, set, get, remove, ensure's growth policy, "
            "out-of-range indices never return normally), byte layout of Write/Read and their round trip (induction as a loop in the harness), sorting: identity initialisation, "
            "comparator closures against the specified order (primary then child, both directions), Swap/Len, result is a permutation; Filtering returns the selected elements in order.",
            "DESIGN.md §5 C13",
            BASE_NOTE + " Assumed: sort.Sort only permutes through Swap (the ordering of the final result rests on it: the repository's Less is non-strict, see DESIGN), AnyList interface model, strconv/fmt for the text accessors.",
            TECH),
    "C14": ("proof",
            "Register-level contracts (bit-vector) for RegisterSet Get/Set/UpdateIfGreater/Merge against a 5-bit field view, clz32/clz64 against a leading-zero spec, offerHashed: register = top p bits, "
            "rank = the algorithm's rho, effect = max; semilattice lemmas (commutative, associative, idempotent offers and merges, merge = union homomorphism) as proof harnesses for precisions 4..16; "
            "Merge returns a fresh counter and leaves its inputs untouched; byte form round-trips precision and every register word; Cardinality is total and a function of the registers only.",
            "DESIGN.md §5 C14",
            BASE_NOTE + " Not decidable by contracts and not claimed: the statistical error bound of the estimate. Floats are modelled by bit patterns with uninterpreted deterministic arithmetic; math.Log assumed deterministic.",
            TECH),
    "C15": ("proof",
            "CRC-32 table checked symbolically against the reflected-polynomial recurrence; Hash/HashStr/Hash64/Hash64Str and the two v2 twins equal recursive spec folds (loop invariants), v2 twins equal by a shared spec; "
            "64-bit murmur equals MurmurHash64A written from the reference; hexa32 text encoding: ToLong32(ToString32(n)) == n for every int64 and the prefix forms; bitutil compose/split inverse laws; "
            "IPv4 int<->bytes inverse; Java-style HashCode fold. The 32-bit murmur hash differs from both references on some tails: known findings.",
            "DESIGN.md §5 C15",
            BASE_NOTE + " Assumed: single-digit strconv.Itoa/Atoi, []byte(str) has the string's bytes. IPv4 text conversions (strconv/strings) are outside the verifier and not claimed.",
            TECH),
    "C16": ("other",
            "PARTIAL, by design of the technique: the sequential part is proved over ghost histories, schedules are not decided. Proved: representation invariant accepted == emitted ++ pending with packCount == number of pending records and the buffer's token stream == their encodings; "
            "Append flushes exactly when the size after the write reaches the limit or the waiting time is reached, sendAndClear emits exactly the pending records, RecordCount equals the number of records in the payload, the payload (after UnZip when flagged) decodes to exactly those records in order; "
            "compression is applied exactly when the payload reaches the minimum size; SendDirect emits its argument in order in contiguous non-empty packs, each but the last having reached the limit, each pack fresh; whole-log statement: the emitted packs partition the accepted records into consecutive segments (exactly once, in order). "
            "Non-interference: every emitted pack's Records array is fresh and is not the sender's buffer storage, Append modifies nothing reachable from emitted packs (a retaining client is modelled). Defaults 5000/1000/65536/100 are in force after GetInstance without options and after ApplyConfig with an empty configuration.",
            "DESIGN.md §5 C16, §10.4",
            BASE_NOTE + " TRUSTED: bytes.Buffer storage model (Bytes aliases the internal array, Reset keeps it, Write overwrites in place or moves), TcpClient.SendFlush only appends to the ghost log, gzip inverse pair, a full copy append([]byte(nil), b...) carries b's token stream, encoding size of a record between 2 bytes and 1 GiB, logger/context/config externs. "
            "NOT decided: run() (channel select is not modelled; its two actions are exactly Append and sendAndClear), interleavings (ApplyConfig/SetTcpClient racing run; there is no lock), wall-clock flush timing, queue hand-over (C11).",
            TECH),
    "C19": ("proof",
            "Gregorian spec functions written from the calendar rules; the three nested loops of the century table proved with full invariants (every one of the 36525 entries carries the civil date, "
            "time and weekday of its day); every helper on an instant of the century against Euclidean digits of the day remainder, text digits pinned; unit functions are floor((t-BASE)/step), monotone, step exactly.",
            "DESIGN.md §5 C19",
            BASE_NOTE + " Assumed: strconv.Itoa/Atoi and fmt.Sprintf for the digit formats used, bytes.Buffer string building. DateFormat (time.Time, maps, bytes.Reader) is outside the verifier and not claimed; agreement of the spec with package time is a self-test of the spec, not a proof.",
            TECH),
    "C20": ("proof",
            "Equals/CompareTo of every value type and every util/compare helper against spec relations; totality (nopanic) for nil, same-type and mixed-type arguments; laws (reflexive, symmetric, transitive, antisymmetric, zero-iff-equal, "
            "ordering by type code) as proof harnesses over the contracts; containers at depth 1. Violations that remain on the repaired tree (NaN, summaries, nil vs empty, nil elements) are known findings.",
            "DESIGN.md §5 C20",
            BASE_NOTE + " Assumed: IEEE comparison axioms (without x == x), string order axioms, interface-method contracts for Value (checked per implementation by dispatch harnesses), trusted hmap enumerator model for the map types.",
            TECH),
}

NOT_APPLICABLE = {
    "C17": "file logger: every observable is file-system content over time (os, log, directory listings, wall-clock rotation goroutine); no function contract over the repository's code expresses or decides it (DESIGN.md §6)",
    "C18": "file configuration: ranges over external edit histories, mtime polling, unlocked map races and crash points inside truncate-then-write, parsing delegated to third-party code; not expressible as contracts on the repository's functions (DESIGN.md §6)",
}

PENDING_REASON = "not claimed yet: contracts for this property are still being written (see DESIGN.md build order); no check is registered so nothing is asserted about it"

def main():
    props = [json.loads(l) for l in open('/verif/properties.jsonl')]
    try:
        commits = subprocess.check_output(['git', '-C', '/repo', 'log', '--format=%h %s', '1ab58a0..HEAD'], text=True).strip().split('\n')
    except Exception:
        commits = []
    hook_commits = [c.split()[0] for c in commits if c and c.split(' ', 1)[1].startswith('verif:')]
    checks = []
    for p in props:
        pid = p['id']
        if pid not in CLAIMED:
            continue
        cat, text, ref, note, tech = CLAIMED[pid]
        checks.append({
            "property_id": pid,
            "quick_cmd": "./check.sh %s quick" % pid,
            "thorough_cmd": "./check.sh %s thorough" % pid,
            "evidence_file": "/verif/evidence/%s.json" % pid,
            "replay_cmd_template": "bin/govc replay {path}",
            "engine": "govc",
            "level_claimed": {"category": cat, "text": text, "design_ref": ref},
            "level_note": note,
            "technique": tech,
        })
    na = []
    for p in props:
        pid = p['id']
        if pid in CLAIMED:
            continue
        na.append({"property_id": pid, "reason": NOT_APPLICABLE.get(pid, PENDING_REASON)})
    m = {
        "version": 1,
        "setup_cmd": "cd /verif/govc && GOFLAGS=-mod=mod GOPROXY=off GOSUMDB=off GOTOOLCHAIN=local go build -o /verif/bin/govc .",
        "hooks": {
            "guard": "verif",
            "enable": "-tags=verif (adds comment-only contract files zz_contracts_verif.go and executable proof harnesses zz_lemmas_verif.go per package)",
            "baseline_off_cmd": "cd /repo && go test -vet=off -count=1 ./...",
            "source_commits": hook_commits,
            "add_only": True,
        },
        "engines": [{"name": "govc", "path": "/verif/govc", "serves_properties": sorted(CLAIMED.keys()),
                     "kind_free_text": "contract-based deductive verifier for Go written for this task: contracts as //@ comments in /repo/<pkg>/zz_contracts_verif.go, VCs generated from go/ssa by symbolic execution with loop invariants and callee contracts, discharged by z3 5.1 / z3 4.8 / cvc5"}],
        "checks": checks,
        "not_applicable": na,
        "notes": "Checks rebuild nothing but govc itself; /repo is loaded from its working tree with -tags=verif on every run. known findings: /verif/known_findings.json.",
    }
    json.dump(m, open('/verif/MANIFEST.json', 'w'), indent=1)
    print("claimed:", sorted(CLAIMED.keys()))

if __name__ == '__main__':
    main()
