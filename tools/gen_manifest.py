#!/usr/bin/env python3
"""Regenerates /verif/MANIFEST.json from the table below (claimed checks + not_applicable)."""
import json, subprocess

CLAIMED = {
    # id: (category, text, design_ref, level_note, technique)
    "C01": ("proof",
            "Byte-level contracts on every io helper (bit-vector arithmetic) and on every DataOutputX.Write*/DataInputX.Read* "
            "(appends exactly enc(v) / returns dec of bytes that were present), against big-endian two's-complement spec functions "
            "written from the statement; round-trip, canonical-length and exact-consumption lemmas are proof harnesses verified "
            "against the callee contracts. All inputs, no bound.",
            "DESIGN.md §4 C01",
            "Assumed: bytes.Buffer model (Write/WriteByte/Read/Bytes/Reset/NewBuffer), math.Float*bits as bit casts, go/ssa, the VC generator, SMT solvers, sizes < 2^61. "
            "tcp-backed DataInputX is outside the contracts (requires tcp == nil).",
            "contract-based deductive verification (own VC generator over go/ssa, z3/cvc5)"),
}

NOT_APPLICABLE = {
    "C17": "file logger: every observable is file-system content over time (os, log, directory listings, wall-clock rotation goroutine); no function contract over the repository's code expresses or decides it (DESIGN.md §6)",
    "C18": "file configuration: ranges over external edit histories, mtime polling, unlocked map races and crash points inside truncate-then-write, parsing delegated to third-party code; not expressible as contracts on the repository's functions (DESIGN.md §6)",
}

PENDING_REASON = "not claimed yet: contracts for this property are still being written (see DESIGN.md build order); no check is registered so nothing is asserted about it"

def main():
    props = [json.loads(l) for l in open('/verif/properties.jsonl')]
    try:
        commits = subprocess.check_output(['git', '-C', '/repo', 'log', '--format=%h %s', '1ab58a0..HEAD'], text=True).strip().split('\n')
    except Exception:
        commits = []
    hook_commits = [c.split()[0] for c in commits if c and c.split(' ', 1)[1].startswith('verif:')]
    checks = []
    for p in props:
        pid = p['id']
        if pid not in CLAIMED:
            continue
        cat, text, ref, note, tech = CLAIMED[pid]
        checks.append({
            "property_id": pid,
            "quick_cmd": "./check.sh %s quick" % pid,
            "thorough_cmd": "./check.sh %s thorough" % pid,
            "evidence_file": "/verif/evidence/%s.json" % pid,
            "replay_cmd_template": "bin/govc replay {path}",
            "engine": "govc",
            "level_claimed": {"category": cat, "text": text, "design_ref": ref},
            "level_note": note,
            "technique": tech,
        })
    na = []
    for p in props:
        pid = p['id']
        if pid in CLAIMED:
            continue
        na.append({"property_id": pid, "reason": NOT_APPLICABLE.get(pid, PENDING_REASON)})
    m = {
        "version": 1,
        "setup_cmd": "cd /verif/govc && GOFLAGS=-mod=mod GOPROXY=off GOSUMDB=off GOTOOLCHAIN=local go build -o /verif/bin/govc .",
        "hooks": {
            "guard": "verif",
            "enable": "-tags=verif (adds comment-only contract files zz_contracts_verif.go and executable proof harnesses zz_lemmas_verif.go per package)",
            "baseline_off_cmd": "cd /repo && go test -vet=off -count=1 ./...",
            "source_commits": hook_commits,
            "add_only": True,
        },
        "engines": [{"name": "govc", "path": "/verif/govc", "serves_properties": sorted(CLAIMED.keys()),
                     "kind_free_text": "contract-based deductive verifier for Go written for this task: contracts as //@ comments in /repo/<pkg>/zz_contracts_verif.go, VCs generated from go/ssa by symbolic execution with loop invariants and callee contracts, discharged by z3 5.1 / z3 4.8 / cvc5"}],
        "checks": checks,
        "not_applicable": na,
        "notes": "Checks rebuild nothing but govc itself; /repo is loaded from its working tree with -tags=verif on every run. known findings: /verif/known_findings.json.",
    }
    json.dump(m, open('/verif/MANIFEST.json', 'w'), indent=1)
    print("claimed:", sorted(CLAIMED.keys()))

if __name__ == '__main__':
    main()
