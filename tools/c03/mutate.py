#!/usr/bin/env python3
# Mutation suite of property C03 (lang/pack). usage: mutate.py ROOT [M1 M2 ...]
# ROOT must be a PRIVATE copy of the repository (cp -r /repo <dir>): the sources under ROOT/lang/pack are edited in place
# and restored after each mutant. Each mutant is verified with /verif/bin/govc on the one unit named in its entry.
import subprocess, sys, os
if len(sys.argv) < 2 or os.path.realpath(sys.argv[1]) == '/repo':
    sys.exit('usage: mutate.py PRIVATE_ROOT [names]  (never /repo itself)')
ROOT=os.path.realpath(sys.argv[1])
R=ROOT+'/lang/pack/'
GOVC=os.path.join(os.path.dirname(os.path.abspath(__file__)), '..', '..', 'bin', 'govc')
ENV=dict(os.environ, GOFLAGS='-mod=mod', GOPROXY='off', GOSUMDB='off', GOTOOLCHAIN='local')
M=[
 ('M1 AbstractPack.Read ver<=8 -> ver<8','AbstractPack.go','if ver <= 8 {','if ver < 8 {','verif_rt_AbstractPack'),
 ('M2 TextPack.Write drops last record','TextPack.go','for i := 0; i < len(this.records); i++ {\n\t\tr := this.records[i]','for i := 0; i < len(this.records)-1; i++ {\n\t\tr := this.records[i]','verif_rt_TextPack'),
 ('M3 HitMapPack1.Read mask 0x7fff','HitMapPack1.go','this.Hit[i] = int32(din.ReadShort()) & 0xffff','this.Hit[i] = int32(din.ReadShort()) & 0x7fff','verif_rt_HitMapPack1'),
 ('M4 CreatePack PACK_ZIP -> LogSinkZipPack','Pack.go','case PACK_ZIP:\n\t\treturn NewZipPack()','case PACK_ZIP:\n\t\treturn NewLogSinkZipPack()','verif_factory'),
 ('M5 CompositePack.Read reversed order','CompositePack.go','this.pack[i] = ReadPack(din)','this.pack[sz-1-i] = ReadPack(din)','verif_rt_CompositePack'),
 ('M6 LogSinkZipPack.GetRecords wrong stamp','LogSinkZipPack.go','p.Okind = this.Okind','p.Okind = this.Onode','verif_logsinkzip_records'),
 ('M7 StatErrorPack.ReadRec Msg/Count swapped','StatErrorPack.go','m.Msg = int32(in.ReadDecimal())\n\tm.Count = int32(in.ReadDecimal())','m.Count = int32(in.ReadDecimal())\n\tm.Msg = int32(in.ReadDecimal())','verif_staterror_records'),
 ('M8 ActiveStackPack.Read ver>0 -> ver>1','ActiveStackPack.go','if ver > 0 {','if ver > 1 {','verif_rt_ActiveStackPack'),
 ('M9 SqlRec.Read version test','SqlRec.go','if ver >= 0 {\n\t\treturn this\n\t}\n\tthis.Service','if ver >= -1 {\n\t\treturn this\n\t}\n\tthis.Service','verif_rt_SqlRec'),
 ('M10 LogSinkPack.Write Line/Content order','LogSinkPack.go','dout.WriteDecimal(this.Line)\n\tdout.WriteText(this.Content)\n\tif this.Fields','dout.WriteText(this.Content)\n\tdout.WriteDecimal(this.Line)\n\tif this.Fields','verif_rt_LogSinkPack'),
 ('M11 ZipPack.GetRecords off-by-one count','ZipPack.go','for i := 0; i < this.RecordCount; i++ {','for i := 1; i < this.RecordCount; i++ {','verif_zip_records'),
 ('M13 SMTCPPerfPack.Read reads one record less','SMTCPPerfPack.go','for i := int64(0); i < tcpCount; i++ {','for i := int64(0); i < tcpCount-1; i++ {','verif_rt_SMTCPPerfPack'),
 ('M14 WritePack writes the tag of another type (framing is abstracted: expected MISSED)','Pack.go','out.WriteShort(int16(p.GetPackType()))','out.WriteShort(int16(p.GetPackType()) + 1)','verif_rt_CompositePack'),
 ('M15 SMDownCheckPack.SetRecords wrong RecordCount','SMDownCheckPack.go','this.RecordCount = int32(sz)','this.RecordCount = int32(sz) + 1','verif_smdowncheck_records'),
 ('M16 SMLogEvent.Read clears Keyword after storing it','SMLogEventPack.go','this.Keyword = &keyword\n','this.Keyword = &keyword\n\tkeyword = ""\n','verif_rt_SMLogEvent_strings'),
 ('M17 TagLogPack.Read drops the tag hash again','TagLogPack.go','this.tagHash = din.ReadDecimal()\n','din.ReadDecimal()\n','verif_rt_TagLogPack'),
 ('M18 CpuOSX.Read skips Steal again (last occurrence)','SMBasePack.go','this.Steal = din.ReadFloat()\n\tthis.Iowait = din.ReadFloat()','this.Iowait = din.ReadFloat()','verif_rt_CpuOSX'),
 ('M12 TCPPortPerf.Read negates IsAlive','SMTCPPerfPack.go','this.IsAlive = din.ReadBool()','this.IsAlive = !din.ReadBool()','verif_rt_TCPPortPerf'),
]
sel = sys.argv[2:]
for name, f, a, b, unit in M:
    if sel and not any(name.startswith(x+' ') for x in sel): continue
    p=R+f
    src=open(p).read()
    if a not in src:
        print(name, 'PATTERN NOT FOUND'); continue
    if '(last occurrence)' in name:
        k=src.rindex(a); open(p,'w').write(src[:k]+b+src[k+len(a):])
    else:
        open(p,'w').write(src.replace(a,b,1))
    try:
        r=subprocess.run([GOVC, 'verify', '-root', ROOT, '-pkgs', './lang/pack', '-f', 'pack.'+unit, '-t', '10'], capture_output=True, text=True, timeout=1800, env=ENV)
        lines=[l for l in (r.stdout+r.stderr).splitlines() if l.startswith('pack.') or 'FAIL' in l]
        fails=[l for l in lines if 'FAIL' in l]
        print(name, '=>', 'CAUGHT' if fails else 'MISSED', '|', lines[0].split()[1] if lines else '?', '|', (fails[0].split()[1] if fails else ''))
    finally:
        open(p,'w').write(src)
    sys.stdout.flush()
