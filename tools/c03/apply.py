#!/usr/bin/env python3
# Applies the hand edits to a freshly generated zz_rt_verif.go (govc genrt output, gofmt'ed).
import re, sys, os, glob
path = sys.argv[1]
s = open(path).read()
HEADER = '''	if (p.AbstractPack.Okind | p.AbstractPack.Onode) == 0 {
		vassert(q.AbstractPack.Pcode == p.AbstractPack.Pcode)
		vassert(q.AbstractPack.Oid == p.AbstractPack.Oid)
		vassert(q.AbstractPack.Time == p.AbstractPack.Time)
	} else {
		vassert(q.AbstractPack.Pcode == p.AbstractPack.Pcode)
		vassert(q.AbstractPack.Oid == p.AbstractPack.Oid)
		vassert(q.AbstractPack.Okind == p.AbstractPack.Okind)
		vassert(q.AbstractPack.Onode == p.AbstractPack.Onode)
		vassert(q.AbstractPack.Time == p.AbstractPack.Time)
	}'''
def unit_span(s, name):
    m = re.search(r'//@ lemmafn verif_rt_%s\n' % name, s)
    if not m: raise SystemExit('unit not found: ' + name)
    e = s.index('\n}\n', m.start()) + 3
    return m.start(), e
here = os.path.dirname(os.path.abspath(__file__))
for f in sorted(glob.glob(os.path.join(here, '*.go.txt'))):
    name = os.path.basename(f)[:-len('.go.txt')]
    txt = open(f).read().replace('@HEADER@', HEADER)
    if name.startswith('+'):       # additional unit: appended
        s = s.rstrip('\n') + '\n\n' + txt
        continue
    a, b = unit_span(s, name)
    s = s[:a] + txt + s[b:]
# types whose generated harness is removed (not under contract), with the reason
MAPS = 'its table is a util/hmap linked map written/read through enumerations and Put; package hmap has no functional contracts in the repository yet (only lock discipline), so the loops over it cannot be cut. '
SKIPS = {
 'CounterPack1': 'about 120 fields inside a nested stream with two byte-counted loops, six optional sections and five meter tables kept in hmap maps (no functional hmap contracts). Not under contract as a whole; its defects (dropped DbNum maps / Netstat / Websocket, misaligned Extra and TxcallerPOidMeter sections, 8-bit array counts) are confirmed by the executable test, see report.',
 'EventPack': MAPS + '(The Status/Otype defect of Read found here was repaired in the repository; the executable test confirms both now survive.)',
 'ParamPack': MAPS + 'The values are composite value tokens.',
 'ExtensionPack': MAPS,
 'StatRemoteIpPack': MAPS,
 'StatUserAgentPack': MAPS,
 'ProcPerf': 'two record lists (ProcNetPerf, ProcFilePerf: verified on their own) written by range loops INSIDE the nested stream of the record: needs nested quantified stream comparison, not available.',
 'SMProcPerfPack': 'list of ProcPerf records (see ProcPerf).',
 'SMBasePack': 'Cpu / CpuCore / Memory are interface-typed and serialised through dynamic dispatch (no devirtualisation in the verifier); the concrete records CpuLinux, CpuWindow, CpuOSX, MemoryLinux, MemoryWindow are verified on their own. Defect confirmed by the executable test: for an OS code outside {1,2,3,4,5} Read skips the Cpu/CpuCore/Memory sections Write emitted and decodes UpTime/EpochTime from the wrong bytes.',
 'SMDiskPerfPack': 'list of DiskPerf records, each a nested stream written as one blob; the record codec is verified on its own (verif_rt_DiskPerf). The per-record composite-token pattern of SMTCPPerfPack (zz_records_verif.go) carries over (tried: all obligations discharge, but two loop-preservation goals over the 19-field record tuple need 30-40 s, so the unit is left out).',
 'SMNetPerfPack': 'list of NetPerf records (as SMDiskPerfPack; record: verif_rt_NetPerf).',
 'SMLogEventPack': 'list of SMLogEvent records (record: verif_rt_SMLogEvent); the record fields are *string, which the composite-token contract cannot dereference in the contract language.',
 'ServerInfoPack': 'Attr is written with MapValue.Write (untagged body, loops over hmap) and read with value.ReadMapValue (expects a type tag). Defect confirmed by the executable test: with a non-empty Attr the decoder is misaligned (Attr comes back nil, 6 bytes left); with an empty Attr the body byte 0 is taken for a tag and Attr comes back nil. Also: the pack writes no common header (Pcode/Oid/Time are not carried) and Version travels as 3 bytes.',
 'SMExtension': 'header/values/meta are written with IntMapValue.WriteValue (tag + body) but read with IntMapValue.Read (body only) plus one stray ReadByte: the three sections are misaligned. Confirmed by the executable test (Read panics "unknown value" or with a short read). The value-map bodies loop over hmap (no functional contracts).',
 'ProfilePack': 'Transaction is a service.TxRecord (other package, nested stream, value map). Defect confirmed by the executable test: Read calls service.ToObject(din), which takes the TxRecord version byte (10) for a service type tag, and discards the result: Transaction is never restored (nil dereference on the real code).',
}
for name, why in SKIPS.items():
    a, b = unit_span(s, name)
    s = s[:a] + '// %s: no round-trip harness (HAND-EDITED: generated harness removed) — %s\n' % (name, why) + s[b:]
# small patches: extra requires / early return / extra asserts (inserted before the closing brace)
PATCHES = {
 'TagCountPack': dict(
   afterread=['vassume(q.Tags != nil && q.Tags.Size() == p.Tags.Size()) // content-equal maps (valeq) have the same size: true of the value codec, not exported by its token view'],
   clauses=['opaque hash.crc64fold hash.crcT hash.crcstep -- the value of the tag hash is irrelevant here'],
   note='the generator does not see tagHash/Tags (written through a nested buffer). The branch of Write that splices the raw bytes of a one-value stream (tagHash == 0 and tags present) emits the same bytes as the other branch but is not expressible in the token view: the harness returns early there (covered by the executable test only).',
   requires=['p.Tags != nil && p.Data != nil'],
   early='if p.tagHash == 0 && p.Tags.Size() > 0 {\n\t\treturn // raw splice of the tag stream: outside the token view\n\t}',
   asserts=['vassert(q.tagHash == p.tagHash)', 'vassert(vvalueeq_MapValue(q.Tags, p.Tags))']),
 'TagLogPack': dict(
   afterread=['vassume(q.Tags != nil && q.Tags.Size() == p.Tags.Size()) // content-equal maps (valeq) have the same size: true of the value codec, not exported by its token view'],
   clauses=['opaque hash.crc64fold hash.crcT hash.crcstep -- the value of the tag hash is irrelevant here'],
   note='as TagCountPack (tagHash/Tags added by hand, early return on the raw-splice branch). After the repair of TagLogPack.Read (it now consumes the tag hash) the round trip is complete.',
   requires=['p.Tags != nil && p.Fields != nil'],
   early='if p.tagHash == 0 && p.Tags.Size() > 0 {\n\t\treturn // raw splice of the tag stream: outside the token view\n\t}',
   asserts=['vassert(q.tagHash == p.tagHash)', 'vassert(vvalueeq_MapValue(q.Tags, p.Tags))']),
 'LogSinkPack': dict(
   afterread=['vassume(q.Tags != nil && q.Tags.Size() == p.Tags.Size()) // content-equal maps (valeq) have the same size: true of the value codec, not exported by its token view', 'if p.Fields != nil && p.Fields.Size() > 0 {\n\t\tvassume(q.Fields != nil && q.Fields.Size() == p.Fields.Size())\n\t}'],
   clauses=['opaque hash.crc64fold hash.crcT hash.crcstep -- the value of the tag hash is irrelevant here'],
   note='TagHash/Tags/Fields added by hand (conditional and nested writes); early return on the raw-splice branch as in TagCountPack.',
   requires=['p.Tags != nil'],
   early='if p.TagHash == 0 && p.Tags.Size() > 0 {\n\t\treturn // raw splice of the tag stream: outside the token view\n\t}',
   asserts=['vassert(q.TagHash == p.TagHash)', 'vassert(vvalueeq_MapValue(q.Tags, p.Tags))',
            'if p.Fields != nil && p.Fields.Size() > 0 {\n\t\tvassert(vvalueeq_MapValue(q.Fields, p.Fields))\n\t}']),
 'DiskPerf': dict(
   note='Write emits the constant 1 in the slot Read assigns to Count: the decoded Count is always 1 (asserted here). That Count is therefore NOT carried is the failing obligation of verif_count_DiskPerf below (FINDING, confirmed on real code: 5 -> 1).',
   asserts=['vassert(q.Count == 1) // the wire slot always holds 1']),
 'NetPerf': dict(
   note='Write emits the constant 1 in the slot Read assigns to Count: the decoded Count is always 1 (asserted here). That Count is therefore NOT carried is the failing obligation of verif_count_NetPerf below (FINDING, confirmed on real code: 5 -> 1).',
   asserts=['vassert(q.Count == 1) // the wire slot always holds 1']),
 'StatGeneralPack': dict(
   replace=[('\tvassert(q.DataStartTime == p.DataStartTime)\n', '\tif p.packType != PACK_STAT_GENERAL { // Write returns before the start time for the (only registered) type PACK_STAT_GENERAL\n\t\tvassert(q.DataStartTime == p.DataStartTime)\n\t}\n')],
   newq='NewStatGeneralPack() // as the factory does (a zero StatGeneralPack has a nil table and cannot be written)',
   note='the data table is serialised lazily into dataBytes by writeTable (loops over list.AnyList through interfaces: not under contract); the harness covers a pack whose table is already packed: dataBytesSize is the length of dataBytes and fits the 3-byte wire field.',
   requires=['p.data != nil && p.dataBytes != nil && len(p.dataBytes) > 0 && p.dataBytesSize == len(p.dataBytes) && p.dataBytesSize < 8388608'],
   ),
}
for name, pt in PATCHES.items():
    a, b = unit_span(s, name)
    u = s[a:b]
    u = '// HAND-EDITED: ' + pt['note'] + '\n' + u
    for r in pt.get('requires', []):
        u = u.replace('//@   requires p != nil\n', '//@   requires p != nil\n//@   requires ' + r + '\n', 1)
    for r in pt.get('clauses', []):
        u = u.replace('//@   requires p != nil\n', '//@   requires p != nil\n//@   ' + r + '\n', 1)
    if 'early' in pt:
        u = re.sub(r'(func verif_rt_%s\(p \*%s\) \{\n)' % (name, name), lambda m: m.group(1) + '\t' + pt['early'] + '\n', u, 1)
    for a_, b_ in pt.get('replace', []):
        assert a_ in u, a_
        u = u.replace(a_, b_, 1)
    if 'newq' in pt:
        u = u.replace('\tq := new(%s)\n' % name, '\tq := %s\n' % pt['newq'], 1)
    if 'afterread' in pt:
        u = u.replace('\tq.Read(in)\n', '\tq.Read(in)\n' + ''.join('\t' + x + '\n' for x in pt['afterread']), 1)
    extra = ''.join('\t' + x + '\n' for x in pt.get('asserts', []))
    assert u.endswith('\n}\n')
    u = u[:-2] + extra + '}\n'
    s = s[:a] + u + s[b:]
# extra intrinsic declaration
if 'func vstreameqall' not in s:
    s = s.replace('func vsliceeq_byte', '''// vstreameqall: vstreameq for streams written by loops (verifier: quantified over the token positions)
func vstreameqall(a, b *io.DataOutputX) bool { return bytes.Equal(a.ToByteArray(), b.ToByteArray()) }

// vstreq: same bytes (verifier: extensional string equality)
func vstreq(a, b string) bool { return a == b }

// vassume: an assumption of the harness (recorded by the verifier as an assumption of the unit; no-op when executed)
func vassume(b bool) {}

// vpackeq: both nil, or same concrete type and equal content (executable: same tagged encoding; verifier: packeq)
func vpackeq(a, b Pack) bool {
	if a == nil || b == nil {
		return a == nil && b == nil
	}
	return bytes.Equal(ToBytesPack(a), ToBytesPack(b))
}

func vsliceeq_byte''', 1)
s = s.replace('// field (under the condition under which Write emits it) is equal.\n', '// field (under the condition under which Write emits it) is equal.\n// Units marked HAND-EDITED were rewritten by hand (see tools note in the report); all others are generator output.\n', 1)
open(path, "w").write(s)
