#!/bin/sh
# Regenerates <ROOT>/lang/pack/zz_rt_verif.go: `govc genrt` output + the hand edits of this directory (apply.py, *.go.txt).
# usage: tools/c03/regen.sh [ROOT]      (ROOT defaults to /repo; use a private copy while experimenting)
set -e
export GOFLAGS=-mod=mod GOPROXY=off GOSUMDB=off GOTOOLCHAIN=local
HERE=$(cd "$(dirname "$0")" && pwd)
VERIF=$(cd "$HERE/../.." && pwd)
ROOT=${1:-/repo}
W="$VERIF/work/c03"
mkdir -p "$W"
T="$ROOT/lang/pack/zz_rt_verif.go"
if [ ! -f "$T" ]; then
	# genrt type-checks the package with -tags verif: zz_factory_verif.go needs vassert, declared in zz_rt_verif.go
	printf '//go:build verif\n\npackage pack\n\nfunc vassert(b bool) {\n\tif !b {\n\t\tpanic("vassert failed")\n\t}\n}\n' > "$T"
fi
"$VERIF/bin/govc" genrt -root "$ROOT" -pkgs ./lang/pack -prop C03 -out "$W/gen_rt.go"
gofmt -w "$W/gen_rt.go"
if ! cmp -s "$W/gen_rt.go" "$HERE/gen_rt_reference.go.in"; then
	echo "note: generator output differs from tools/c03/gen_rt_reference.go.in (code or generator changed): review the hand edits" >&2
fi
cp "$W/gen_rt.go" "$W/zz_rt_verif.go"
python3 "$HERE/apply.py" "$W/zz_rt_verif.go"
gofmt -w "$W/zz_rt_verif.go"
cp "$W/zz_rt_verif.go" "$T"
(cd "$ROOT" && go build -tags verif ./lang/pack && go vet -tags verif ./lang/pack)
echo "wrote $T"
