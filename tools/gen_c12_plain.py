#!/usr/bin/env python3
# Generator of /repo/util/hmap/zz_plain_verif.go (override the output path with GEN_C12_OUT): the IntIntMap section
# (gen_c12_plain_ii.txt next to this script, written by hand) is the master;
# the sections of IntSet / StringSet / IntKeyMap are derived from its blocks by renaming plus per-type patches.
import re, sys
import os
ROOT=os.path.dirname(os.path.abspath(__file__))
OUT=os.environ.get('GEN_C12_OUT','/repo/util/hmap/zz_plain_verif.go')
master=open(ROOT+'/gen_c12_plain_ii.txt').read().rstrip('\n')+'\n'

def blocks(text):
    out={}
    for b in re.split(r'\n\s*\n', text):
        lines=[l for l in b.split('\n')]
        # key = first //@ line
        for l in lines:
            if l.startswith('//@ '):
                m=re.match(r'//@ (func|pred|lemmafn|lemma|ghost|spec (?:opaque |rec )?fn)\s+([A-Za-z0-9_.]+)', l)
                if m:
                    out[m.group(1).split()[0]+' '+m.group(2)]='\n'.join(x for x in lines if x.startswith('//@'))
                break
    return out
B=blocks(master)
for l in master.split('\n'):
    m=re.match(r'//@ pred\s+([A-Za-z0-9_]+)\(', l)
    if m:
        B['pred '+m.group(1)]=l

def ren(s, T, E, X, P):
    s=s.replace('IntIntMapEnumer', X).replace('IntIntMap', T).replace('IntIntEntry', E)
    s=re.sub(r'\bpII', P, s)
    return s

def droplines(s, pats):
    return '\n'.join(l for l in s.split('\n') if not any(p in l for p in pats))

def sub(s, pairs):
    for a,b in pairs:
        if a not in s:
            sys.stderr.write('WARNING: pattern not found: %r\n'%a[:80])
        s=s.replace(a,b)
    return s

def addwith(b, name):
    ls=b.split('\n')
    for i,l in enumerate(ls):
        if l.startswith('//@   with '):
            ls[i]=l+' '+name
            return '\n'.join(ls)
    for i,l in enumerate(ls):
        if l.startswith('//@   arith int'):
            ls.insert(i+1,'//@   with '+name)
            return '\n'.join(ls)
    return b
def addwith_all(text, name):
    # every func block of a section
    parts=re.split(r'(\n\s*\n)', text)
    for i,pp in enumerate(parts):
        if re.search(r'^//@ func ', pp, re.M):
            # a part may hold leading comment lines
            parts[i]=addwith(pp, name)
    return ''.join(parts)
out=[master]

# =====================================================================================
# IntSet
# =====================================================================================
T,E,X,P='IntSet','IntSetry','IntSetEnumer','pIS'
R=lambda k: ren(B[k],T,E,X,P)
sec=['''
// =====================================================================================
// IntSet  (derived from the IntIntMap section: same ghost model without values; view = { k | pEnt[k] != nil })
// =====================================================================================
''']
sec.append('''//@ ghost IntSet.pEnt map[int32]*IntSetry
//@ ghost IntSetry.pRank int
//@ ghost IntSetry.pOwn *IntSet
//@ ghost IntSet.pKeyAt map[mathint]int32
//@ ghost IntSetry.pIdx int
//@ ghost IntSet.pCur int
//@ ghost IntSetry.pGen int
''')
for k in ['pIITab','pIIEnt','pIINext','pIIHead','pIIMax','pIISucc','pIICard','pIIEntG','pIIHeadG','pIINextG','pIIMaxG','pIISuccG','pIIOK']:
    sec.append(R('pred '+k))
sec.append('')
cons='''//@ func %s
//@   prop C12
//@   arith int
//@   ensures result != nil && fresh(result) && result.count == 0 && !held(result.lock) && fresh(result.table.arr) && len(result.table) == 101
//@   ensures pISTab(result) && pISEnt(result) && pISNext(result) && pISHead(result) && pISMax(result) && pISSucc(result) && pISCard(result)
//@   ensures forall k mathint :: result.pEnt[k] == nil
//@   nopanic
'''
sec.append(cons%'NewIntSet')
sec.append('// KNOWN FINDING (documented, not an obligation): NewIntSetArray ignores its argument (the result is always empty)\n'+cons%'NewIntSetArray')
sec.append(R('func IntIntMap.Size')+'\n')
# Contains
c=R('func IntIntMap.ContainsKey').replace('IntSet.ContainsKey','IntSet.Contains')
sec.append('// Contains(key) <==> key in the set\n'+c+'\n')
# rehash: index is a uint local computed from e.key (no key local)
rh=sub(R('func IntIntMap.rehash'),[('loop 2 assert index == pBk(key, newCapacity) && 0 <= index && index < newCapacity','loop 2 assert index == pBk(e.key, newCapacity) && 0 <= index && index < newCapacity')])
sec.append(rh+'\n')
# put(value): true iff the key was absent
pt=R('func IntIntMap.put')
pt=droplines(pt,['.value','this.NONE'])
pt=pt.replace('IntSetry.value, ','')
pt=re.sub(r'\bkey\b','value',pt)            # the parameter is called value
pt=pt.replace('.value ==','.key ==').replace('e.value)','e.key)').replace('prev.value','prev.key')
pt=re.sub(r'\.value\b','.key',pt)
pt=pt.replace('value :=','value :=')
pt=sub(pt,[('//@   ensures this.table.arr == old(this.table.arr) || fresh(this.table.arr)','//@   ensures result == (old(this.pEnt[value]) == nil)\n//@   ensures old(this.pEnt[value]) != nil ==> this.pEnt == old(this.pEnt) && this.count == old(this.count) && this.table == old(this.table)\n//@   ensures old(this.pEnt[value]) == nil ==> this.pEnt[value] != nil && fresh(this.pEnt[value]) && this.pEnt == old(this.pEnt)[value := this.pEnt[value]] && this.count == old(this.count) + 1\n//@   ensures this.table.arr == old(this.table.arr) || fresh(this.table.arr)')])
sec.append('// put(v): v joins the set; the result says whether it was new\n'+pt+'\n')
# remove(key): returns key if present, 0 otherwise
rm=R('func IntIntMap.remove').replace('IntSetry.value, ','').replace(' && e.value == old(e.value)','').replace(' { e.value }','')
rm=droplines(rm,['.value','this.NONE'])
rm=sub(rm,[('//@   ensures this.pEnt == old(this.pEnt)[key := nil] && this.table == old(this.table)','//@   ensures old(this.pEnt[key]) != nil ==> result == key && this.count == old(this.count) - 1\n//@   ensures old(this.pEnt[key]) == nil ==> result == 0 && this.count == old(this.count)\n//@   ensures this.pEnt == old(this.pEnt)[key := nil] && this.table == old(this.table)')])
sec.append('// remove(k): k leaves the set; result k if it was a member, else 0 (so removing the member 0 and a non-member look the same)\n'+rm+'\n')
sec.append(R('func IntIntMap.clear')+'\n')
# ---- IntSet: exported wrappers, PutAll, enumerator ----
def nov(b):
    b=b.replace('IntSetry.value, ','').replace(' && e.value == old(e.value)','').replace(' { e.value }','')
    return droplines(b,['.value','this.NONE'])
pw=nov(R('func IntIntMap.Put'))
pw=sub(pw,[('//@   ensures this.table.arr == old(this.table.arr) || fresh(this.table.arr)','//@   ensures result == (old(this.pEnt[key]) == nil)\n//@   ensures old(this.pEnt[key]) != nil ==> this.pEnt == old(this.pEnt) && this.count == old(this.count) && this.table == old(this.table)\n//@   ensures old(this.pEnt[key]) == nil ==> this.pEnt[key] != nil && fresh(this.pEnt[key]) && this.pEnt == old(this.pEnt)[key := this.pEnt[key]] && this.count == old(this.count) + 1\n//@   ensures this.table.arr == old(this.table.arr) || fresh(this.table.arr)')])
sec.append('// ---- exported wrappers ----\n'+pw+'\n')
rw=nov(R('func IntIntMap.Remove'))
rw=sub(rw,[('//@   ensures this.pEnt == old(this.pEnt)[key := nil] && this.table == old(this.table)','//@   ensures old(this.pEnt[key]) != nil ==> result == key && this.count == old(this.count) - 1\n//@   ensures old(this.pEnt[key]) == nil ==> result == 0 && this.count == old(this.count)\n//@   ensures this.pEnt == old(this.pEnt)[key := nil] && this.table == old(this.table)')])
sec.append(rw+'\n')
sec.append(R('func IntIntMap.Clear')+'\n')
sec.append("""// PutAll: every element of the slice joins the set, nothing else changes
//@ func IntSet.PutAll
//@   prop C12
//@   arith int
//@   requires pISOK(this) && !held(this.lock) && this.count + len(values) < 2305843009213693952
//@   ensures pISTab(this) && pISEnt(this) && pISNext(this) && pISHead(this) && pISMax(this) && pISSucc(this) && pISCard(this) && !held(this.lock)
//@   ensures forall j int :: { arrayof(values)[j] } values.off <= j && j < values.off + len(values) ==> this.pEnt[arrayof(values)[j]] != nil
//@   ensures forall k mathint :: { this.pEnt[k] } old(this.pEnt[k]) != nil ==> this.pEnt[k] == old(this.pEnt[k])
//@   ensures forall k mathint :: { this.pEnt[k] } this.pEnt[k] != nil && old(this.pEnt[k]) == nil ==> (exists j int :: values.off <= j && j < values.off + len(values) && arrayof(values)[j] == k)
//@   ensures this.count >= old(this.count) && this.count <= old(this.count) + len(values)
//@   modifies this.table, this.threshold, this.count, this.pEnt, this.pKeyAt, this.table[:], this.pCur, IntSetry.next, IntSetry.pRank, IntSetry.pOwn, IntSetry.pIdx, IntSetry.pGen
//@   loop 1 invariant 0 <= i && i <= ln && ln == len(values) && !held(this.lock) && this.count <= old(this.count) + i && this.count >= old(this.count)
//@   loop 1 invariant pISTab(this) && pISEnt(this) && pISNext(this) && pISHead(this) && pISMax(this) && pISSucc(this) && pISCard(this)
//@   loop 1 invariant forall j int :: { arrayof(values)[j] } values.off <= j && j < values.off + i ==> this.pEnt[arrayof(values)[j]] != nil
//@   loop 1 invariant forall k mathint :: { this.pEnt[k] } old(this.pEnt[k]) != nil ==> this.pEnt[k] == old(this.pEnt[k])
//@   loop 1 invariant forall k mathint :: { this.pEnt[k] } this.pEnt[k] != nil && old(this.pEnt[k]) == nil ==> (exists j int :: values.off <= j && j < values.off + i && arrayof(values)[j] == k)
//@   loop 1 decreases ln - i
//@   nopanic
""")
sec.append('''// ---- enumerator (same cursor / remaining-set model as IntIntMapEnumer; NextInt on an exhausted enumerator returns 0) ----
//@ ghost IntSetEnumer.pMap *IntSet
//@ ghost IntSetEnumer.pDone map[mathint]bool
//@ ghost IntSetEnumer.pSeen int
//@ ghost IntSetEnumer.pOut map[mathint]mathint
//@ ghost IntSetEnumer.pSeq map[mathint]mathint
//@ ghost IntSetEnumer.pLast *IntSetry                 -- the entry returned by the last NextInt (nil if it was exhausted)
''')
for k in ['pIIEnumOK','pIIRem','pIIEnumCnt','pIIEnumSeqA','pIIEnumSeqB','pIIEnumSeq']:
    sec.append(R('pred '+k))
sec.append('')
kv=R('func IntIntMap.Keys').replace('IntSet.Keys','IntSet.Values').replace('ptrof(result, "*hmap.IntSetEnumer")','result')
kv=kv.replace('istype(result, "*hmap.IntSetEnumer") && fresh(result)','result != nil && fresh(result)').replace(' && result.Type == 1','')
sec.append(kv+'\n')
sec.append(R('func IntIntMapEnumer.HasMoreElements')+'\n')
req='\n'.join(l for l in R('func IntIntMapEnumer.NextInt').split('\n') if l.startswith('//@   requires'))
sec.append("""//@ func IntSetEnumer.NextInt
//@   prop C12
//@   arith int
//@   with pCnt_set pCnt_all pCnt_some pCnt_bounds
"""+req+"""
//@   set this.pLast := ite(old(this.pSeen) < this.pMap.count, this.pMap.pEnt[result], nil)
//@   set this.pDone := ite(this.pLast != nil, old(this.pDone)[this.pLast.pIdx := true], old(this.pDone))
//@   set this.pOut := ite(this.pLast != nil, old(this.pOut)[this.pLast.key := old(this.pSeen)], old(this.pOut))
//@   set this.pSeq := ite(this.pLast != nil, old(this.pSeq)[old(this.pSeen) := this.pLast.key], old(this.pSeq))
//@   set this.pSeen := ite(this.pLast != nil, old(this.pSeen) + 1, old(this.pSeen))
//@   ensures pISEnumOK(this) && this.pMap == old(this.pMap) && this.table == old(this.table)
//@   ensures old(this.pSeen) < this.pMap.count ==> this.pLast != nil && this.pLast.key == result && this.pMap.pEnt[result] == this.pLast && old(pISRem(this, result))
//@   ensures old(this.pSeen) >= this.pMap.count ==> this.pLast == nil && result == 0       -- exhausted: 0, indistinguishable from a stored 0
//@   ensures forall k mathint :: { this.pMap.pEnt[k] } pISRem(this, k) == (old(pISRem(this, k)) && (this.pLast == nil || k != this.pLast.key))
//@   ensures this.pLast != nil ==> !old(this.pDone)[this.pLast.pIdx] && 0 <= this.pLast.pIdx && this.pLast.pIdx < this.pMap.count      -- proof hint
//@   ensures this.pLast != nil ==> this.pSeen == old(this.pSeen) + 1 && this.pDone == old(this.pDone)[this.pLast.pIdx := true] && this.pOut == old(this.pOut)[this.pLast.key := old(this.pSeen)] && this.pSeq == old(this.pSeq)[old(this.pSeen) := this.pLast.key]
//@   ensures this.pLast == nil ==> this.pSeen == old(this.pSeen) && this.pDone == old(this.pDone) && this.pOut == old(this.pOut) && this.pSeq == old(this.pSeq)
//@   ensures pISEnumCnt(this) && pISEnumSeqA(this) && pISEnumSeqB(this)
//@   modifies this.index, this.entry, this.pLast, this.pDone, this.pSeen, this.pOut, this.pSeq
//@   loop 1 invariant pISEnumOK(this) && this.pMap == old(this.pMap) && this.table == old(this.table)
//@   loop 1 invariant forall k mathint :: { this.pMap.pEnt[k] } pISRem(this, k) == old(pISRem(this, k))
//@   loop 1 invariant this.entry != nil ==> this.pDone[this.entry.pIdx] == !pISRem(this, this.entry.key) && 0 <= this.entry.pIdx && this.entry.pIdx < this.pMap.count      -- proof hint (instance of pISEnumCnt)
//@   loop 1 decreases this.index
//@   nopanic
""")
sec.append("""// NewIntSetEnumer builds an enumerator and drops it (it has no result): observation, harmless
//@ func NewIntSetEnumer
//@   prop C12
//@   arith int
//@   nopanic
""")
out.append('\n'.join(sec))
# =====================================================================================
# StringSet  (derived from the IntSet section: keys are strings, bucket = CRC32 of the key mod table size)
# =====================================================================================
IS_text='\n'.join(sec)
BS=blocks(IS_text)
for l in IS_text.split('\n'):
    m=re.match(r'//@ pred\s+([A-Za-z0-9_]+)\(', l)
    if m:
        BS['pred '+m.group(1)]=l
def rs(s):
    s=s.replace('IntSetEnumer','StringSetEnumer').replace('IntSetry','StringSetry').replace('IntSet','StringSet')
    s=re.sub(r'\bpIS','pSS',s)
    s=s.replace('forall k mathint','forall k string').replace('forall k1 mathint','forall k1 string')
    s=s.replace('-2147483648 <= k && k <= 2147483647 && ','k != "" && ')
    s=s.replace('pBk(','pBkS(')
    s=s.replace('k mathint) =','k string) =')
    return s
RS=lambda k: rs(BS[k])
ss=['''
// =====================================================================================
// StringSet  (derived from the IntSet section; keys are strings compared as the engine compares strings (same value);
// the bucket of a key is the CRC-32 of its bytes (hash.HashStr, specified in package hash) modulo the table size;
// the empty string is never stored: KNOWN FINDING, see Put)
// =====================================================================================
//@ ghost StringSet.pEnt map[string]*StringSetry
//@ ghost StringSetry.pRank int
//@ ghost StringSetry.pOwn *StringSet
//@ ghost StringSet.pKeyAt map[mathint]string
//@ ghost StringSetry.pIdx int
//@ ghost StringSet.pCur int
//@ ghost StringSetry.pGen int

//@ spec opaque fn pBkS(k string, n int) int = int(uint(int32(^hash.crc32fold(k, len(k)))) % uint(n))

//@ lemma pBkS_range: forall k string, n mathint :: { pBkS(k, n) } 0 < n && n <= 9223372036854775807 ==> 0 <= pBkS(k, n) && pBkS(k, n) < n
//@   prop C12
//@   arith int
//@   scope explicit
''']
for k in ['pISTab','pISEnt','pISNext','pISHead','pISMax','pISSucc','pISCard','pISEntG','pISHeadG','pISNextG','pISMaxG','pISSuccG','pISOK']:
    ss.append(RS('pred '+k))
ss.append('')
def uh(b):   # every unit of this section needs the spec functions of package hash
    return b.replace('//@   arith int\n','//@   arith int\n//@   opaque hash.crc32fold\n',1)
ss.append(uh(RS('func NewIntSet'))+'\n')
ss.append('// KNOWN FINDING (documented, not an obligation): NewStringSetArray ignores its argument (the result is always empty)\n'+uh(RS('func NewIntSetArray'))+'\n')
ss.append(RS('func IntSet.Size')+'\n')
c=uh(RS('func IntSet.Contains'))
ss.append('// Contains(key) <==> key in the set  (the empty string is never a member)\n'+c+'\n')
c2=sub(c,[('StringSet.Contains','StringSet.HasKey')])
c2='\n'.join(l for l in c2.split('\n') if ' loop ' not in l)
ss.append(c2+'\n')
rh=sub(uh(RS('func IntSet.rehash')),[])
ss.append(rh+'\n')
# unipoint(key): the stored (canonical) string equal to key; key joins the set
up=uh(RS('func IntSet.put'))
up=up.replace('StringSet.put','StringSet.unipoint')
up=re.sub(r'\bvalue\b','key',up)
up=sub(up,[('//@   ensures pBkS(key, len(this.table)) == int(uint(key) % uint(len(this.table)))','//@   ensures pBkS(key, len(this.table)) == int(uint(int32(^hash.crc32fold(key, len(key)))) % uint(len(this.table)))'),
           ('//@   ensures result == (old(this.pEnt[key]) == nil)','//@   ensures result == this.pEnt[key].key           -- the stored string (equal to key)'),
           ('loop 1 invariant tab == this.table && index == pBkS(key, len(this.table))','loop 1 invariant tab == this.table && index == pBkS(key, len(this.table)) && key != ""')])
lines=[]
for l in up.split('\n'):
    if l.startswith('//@   set '):
        l=l.replace('old(this.pEnt[key]) != nil','(old(this.pEnt[key]) != nil || key == "")')
    elif l.startswith('//@   ensures old(this.pEnt[key]) == nil ==>'):
        l=l.replace('//@   ensures old(this.pEnt[key]) == nil ==>','//@   ensures key != "" && old(this.pEnt[key]) == nil ==>')
    elif l.startswith('//@   ensures result == this.pEnt[key].key'):
        l='//@   ensures key != "" ==> result == this.pEnt[key].key           -- the stored string (equal to key)\n//@   ensures key == "" ==> result == "" && this.pEnt == old(this.pEnt) && this.count == old(this.count) && this.table == old(this.table)'
    lines.append(l)
    if l.startswith('//@   ensures this.table.arr == old(this.table.arr) || fresh(this.table.arr)'):
        lines.append('//@   ensures this.pEnt[key] != nil        -- the model: k is a member afterwards.  KNOWN FINDING: fails for k == "" (the empty string is silently not stored)')
up='\n'.join(lines)
ss.append('// unipoint(k): k joins the set; the result is the stored string equal to k ("interning").  KNOWN FINDING: for k == "" nothing\n// is stored and "" is returned, so the strong postconditions below (k is a member afterwards) fail for the empty string.\n'+up+'\n')
rm=uh(RS('func IntSet.remove'))
rm=sub(rm,[('//@   ensures old(this.pEnt[key]) != nil ==> result == key && this.count == old(this.count) - 1','//@   ensures old(this.pEnt[key]) != nil ==> result && this.count == old(this.count) - 1'),
           ('//@   ensures old(this.pEnt[key]) == nil ==> result == 0 && this.count == old(this.count)','//@   ensures old(this.pEnt[key]) == nil ==> !result && this.count == old(this.count)')])
ss.append('// remove(k): k leaves the set; the result says whether it was a member\n'+rm+'\n')
ss.append(RS('func IntSet.clear')+'\n')
for nm in ['Put','Unipoint']:
    pw=uh(RS('func IntSet.Put')).replace('StringSet.Put','StringSet.'+nm)
    pw=sub(pw,[('//@   ensures result == (old(this.pEnt[key]) == nil)','//@   ensures key != "" ==> result == this.pEnt[key].key\n//@   ensures key == "" ==> result == "" && this.pEnt == old(this.pEnt) && this.count == old(this.count) && this.table == old(this.table)')])
    pw=pw.replace('//@   ensures old(this.pEnt[key]) == nil ==>','//@   ensures key != "" && old(this.pEnt[key]) == nil ==>')
    pw=pw.replace('//@   ensures this.table.arr == old(this.table.arr) || fresh(this.table.arr)','//@   ensures this.table.arr == old(this.table.arr) || fresh(this.table.arr)\n//@   ensures this.pEnt[key] != nil        -- KNOWN FINDING: fails for the empty string (see unipoint)')
    ss.append(pw+'\n')
rw=uh(RS('func IntSet.Remove'))
rw=sub(rw,[('//@   ensures old(this.pEnt[key]) != nil ==> result == key && this.count == old(this.count) - 1','//@   ensures old(this.pEnt[key]) != nil ==> result && this.count == old(this.count) - 1'),
           ('//@   ensures old(this.pEnt[key]) == nil ==> result == 0 && this.count == old(this.count)','//@   ensures old(this.pEnt[key]) == nil ==> !result && this.count == old(this.count)')])
ss.append(rw+'\n')
ss.append(RS('func IntSet.Clear')+'\n')
ss.append('''//@ func StringSet.hash
//@   prop C12
//@   arith int

//@   opaque hash.crc32fold
//@   ensures result == uint(int32(^hash.crc32fold(key, len(key))))
//@   pure
//@   nopanic
''')
ss.append('''// ---- enumerator ----
//@ ghost StringSetEnumer.pMap *StringSet
//@ ghost StringSetEnumer.pDone map[mathint]bool
//@ ghost StringSetEnumer.pSeen int
//@ ghost StringSetEnumer.pOut map[string]mathint
//@ ghost StringSetEnumer.pSeq map[mathint]string
//@ ghost StringSetEnumer.pLast *StringSetry
''')
for k in ['pISEnumOK','pISRem','pISEnumCnt','pISEnumSeqA','pISEnumSeqB','pISEnumSeq']:
    ss.append(RS('pred '+k))
ss.append('')
kv=uh(RS('func IntSet.Values')).replace('StringSet.Values','StringSet.Keys')
kv=kv.replace('set result.pMap := this','set ptrof(result, "*hmap.StringSetEnumer").pMap := this')
kv=kv.replace('result != nil && fresh(result)','istype(result, "*hmap.StringSetEnumer") && fresh(ptrof(result, "*hmap.StringSetEnumer"))')
kv=re.sub(r'\bresult\.', 'ptrof(result, "*hmap.StringSetEnumer").', kv)
kv=re.sub(r'\(result\)', '(ptrof(result, "*hmap.StringSetEnumer"))', kv)
kv=re.sub(r'\(result, k\)', '(ptrof(result, "*hmap.StringSetEnumer"), k)', kv)
ss.append(kv+'\n')
ss.append(uh(RS('func IntSetEnumer.HasMoreElements'))+'\n')
ns=uh(RS('func IntSetEnumer.NextInt')).replace('StringSetEnumer.NextInt','StringSetEnumer.NextString')
ns=sub(ns,[('this.pLast == nil && result == 0       -- exhausted: 0, indistinguishable from a stored 0','this.pLast == nil && result == ""      -- exhausted')])
ss.append(ns+'\n')
ss.append(RS('func NewIntSetEnumer')+'\n')
out.append(addwith_all('\n'.join(ss),'pBkS_range'))
# =====================================================================================
# IntKeyMap (derived from the IntIntMap section: values are interface{}, fields are exported, own hash function,
# the exported methods contain the chain code themselves)
# =====================================================================================
def rk(s):
    s=s.replace('IntIntMapEnumer','IntKeyEnumer').replace('IntIntMap','IntKeyMap').replace('IntIntEntry','IntKeyEntry')
    s=re.sub(r'\bpII','pIK',s)
    s=re.sub(r'\.key\b','.Key',s); s=re.sub(r'\.next\b','.Next',s); s=re.sub(r'\.value\b','.Value',s)
    s=s.replace('pBk(','pBkK(')
    return s
RK=lambda k: rk(B[k])
ks=['''
// =====================================================================================
// IntKeyMap  (derived from the IntIntMap section; view = { k -> pEnt[k].Value | pEnt[k] != nil }, values are interface values)
// =====================================================================================
//@ ghost IntKeyMap.pEnt map[int32]*IntKeyEntry
//@ ghost IntKeyEntry.pRank int
//@ ghost IntKeyEntry.pOwn *IntKeyMap
//@ ghost IntKeyMap.pKeyAt map[mathint]int32
//@ ghost IntKeyEntry.pIdx int
//@ ghost IntKeyMap.pCur int
//@ ghost IntKeyEntry.pGen int

// the hash of a key: the key bit-mixed with four of its right shifts, reduced to 31 bits (so it is a non-negative int);
// the bucket is that hash modulo the table size (the code computes it both as int % int and as uint % uint)
//@ spec fn pHashK(h int32) uint = ((uint(h) ^ ((uint(h) >> 20) ^ (uint(h) >> 12))) ^ (uint(h) >> 7) ^ (uint(h) >> 4)) & 2147483647
//@ spec opaque fn pBkK(k int32, n int) int = emod(pHashK(k), n)

//@ lemma pBkK_range: forall k mathint, n mathint :: { pBkK(k, n) } 0 < n ==> 0 <= pBkK(k, n) && pBkK(k, n) < n
//@   prop C12
//@   arith int
//@   scope explicit

//@ func IntKeyMap.hash
//@   prop C12
//@   arith int
//@   ensures result == pHashK(h) && 0 <= result && result <= 2147483647
//@   pure
//@   nopanic
''']
ks.append('''// pIKOwner[a]: the map whose bucket table is the array a (ghost; lets NewIntKeyEnumer(type, table), which is also called
// directly by KeyArray, know which map it enumerates)
//@ ghost pIKOwner map[ref]*IntKeyMap
''')
for k in ['pIITab','pIIEnt','pIINext','pIIHead','pIIMax','pIISucc','pIICard','pIIEntG','pIIHeadG','pIINextG','pIIMaxG','pIISuccG','pIIOK']:
    b=RK('pred '+k)
    if k=='pIITab':
        b=b.replace('allocated(m.table.arr) &&','allocated(m.table.arr) && pIKOwner[m.table.arr] == m &&')
    ks.append(b)
ks.append('')
OWNFRAME='//@   ensures forall a ref :: { pIKOwner[a] } old(allocated(a)) ==> pIKOwner[a] == old(pIKOwner[a])'
ks.append('''// NewIntKeyMap: capacity 0 is replaced by 1; a negative capacity or a non-positive load factor panics INSIDE the function and the
// deferred recover swallows the panic: the function then returns nil (see the report: NewIntKeyMap(-1, 0.75) == nil).
//@ func NewIntKeyMap
//@   prop C12
//@   arith int
//@   ensures initCapacity >= 0 && !(loadFactor <= 0) ==> result != nil
//@   ensures result != nil ==> initCapacity >= 0 && fresh(result) && result.count == 0 && !held(result.lock) && fresh(result.table.arr) && len(result.table) == ite(initCapacity == 0, 1, initCapacity)
//@   ensures result != nil ==> pIKTab(result) && pIKEnt(result) && pIKNext(result) && pIKHead(result) && pIKMax(result) && pIKSucc(result) && pIKCard(result)
//@   ensures result != nil ==> (forall k mathint :: result.pEnt[k] == nil)
//@   set pIKOwner := ite(result != nil, old(pIKOwner)[result.table.arr := result], old(pIKOwner))
//@   ensures forall a ref :: { pIKOwner[a] } old(allocated(a)) ==> pIKOwner[a] == old(pIKOwner[a])
//@   modifies pIKOwner

//@ func NewIntKeyMapDefault
//@   prop C12
//@   arith int
//@   ensures result != nil && fresh(result) && result.count == 0 && !held(result.lock) && fresh(result.table.arr) && len(result.table) == 101
//@   ensures pIKTab(result) && pIKEnt(result) && pIKNext(result) && pIKHead(result) && pIKMax(result) && pIKSucc(result) && pIKCard(result)
//@   ensures forall k mathint :: result.pEnt[k] == nil
//@   ensures forall a ref :: { pIKOwner[a] } old(allocated(a)) ==> pIKOwner[a] == old(pIKOwner[a])
//@   modifies pIKOwner
''')
ks.append(RK('func IntIntMap.Size')+'\n')
ks.append('''// ContainsValue: the model says "some stored key has this value".  KNOWN FINDING: the scan is commented out in the source, the
// function returns false for every argument (post fails).
//@ func IntKeyMap.ContainsValue
//@   prop C12
//@   arith int
//@   requires pIKOK(this) && !held(this.lock)
//@   ensures !held(this.lock)
//@   ensures (exists k mathint :: this.pEnt[k] != nil && this.pEnt[k].Value == value && value != nil) ==> result
//@   pure
//@   nopanic
''')
ks.append(RK('func IntIntMap.ContainsKey')+'\n')
g=RK('func IntIntMap.Get')
g=sub(g,[('//@   ensures result == ite(this.pEnt[key] != nil, this.pEnt[key].Value, this.NONE)','//@   ensures this.pEnt[key] != nil ==> result == this.pEnt[key].Value\n//@   ensures this.pEnt[key] == nil ==> result == nil')])
ks.append(g+'\n')
rh=sub(RK('func IntIntMap.rehash'),[('loop 2 assert index == pBkK(key, newCapacity) && 0 <= index && index < newCapacity','loop 2 assert index == pBkK(e.Key, newCapacity) && 0 <= index && index < newCapacity')])
rh=sub(rh,[('//@   set this.pCur := old(this.pCur) + 1','//@   set this.pCur := old(this.pCur) + 1\n//@   set pIKOwner := old(pIKOwner)[this.table.arr := this]'),
           ('//@   modifies this.table, this.threshold, this.pCur,','//@   ensures forall a ref :: { pIKOwner[a] } old(allocated(a)) ==> pIKOwner[a] == old(pIKOwner[a])\n//@   modifies pIKOwner, this.table, this.threshold, this.pCur,')])
ks.append(rh+'\n')
# Put = worker + lock
pt=RK('func IntIntMap.put').replace('IntKeyMap.put','IntKeyMap.Put')
pt=sub(pt,[('//@   requires pIKOK(this) && this.count < 2305843009213693952','//@   requires pIKOK(this) && !held(this.lock) && this.count < 2305843009213693952'),
           ('//@   ensures pBkK(key, len(this.table)) == int(uint(key) % uint(len(this.table)))      -- proof hint (definition of pBk at the final table size)','//@   ensures !held(this.lock)'),
           ('result == this.NONE &&','result == nil &&'),
           ('//@   modifies this.table, this.threshold, this.count,','//@   ensures forall a ref :: { pIKOwner[a] } old(allocated(a)) ==> pIKOwner[a] == old(pIKOwner[a])\n//@   modifies pIKOwner, this.table, this.threshold, this.count,'),
           ('//@   loop 1 invariant tab == this.table && index == pBkK(key, len(this.table))','//@   loop 1 invariant held(this.lock) && tab == this.table && index == pBkK(key, len(this.table)) && _hash == pHashK(key) && _hash <= 2147483647')])
pt=pt.replace('//@   ensures !held(this.lock)','//@   ensures !held(this.lock)\n//@   ensures pBkK(key, len(this.table)) == emod(pHashK(key), len(this.table)) && 0 <= pHashK(key) && pHashK(key) <= 2147483647      -- proof hint (definition of pBkK at the final table size)\n//@   ensures pBkK(key, len(this.table)) == int(uint(pHashK(key)) % uint(len(this.table)))      -- proof hint (the same in the form the code computes)',1)
ks.append('// Put(k, v): m[k] := v; result the previous value, nil if there was none\n'+pt+'\n')
rm=RK('func IntIntMap.remove').replace('IntKeyMap.remove','IntKeyMap.Remove')
rm=sub(rm,[('//@   requires pIKOK(this)','//@   requires pIKOK(this) && !held(this.lock)'),
           ('result == this.NONE &&','result == nil &&'),
           ('//@   ensures this.pEnt == old(this.pEnt)[key := nil] && this.table == old(this.table)','//@   ensures this.pEnt == old(this.pEnt)[key := nil] && this.table == old(this.table) && !held(this.lock)'),
           ('//@   loop 1 invariant tab == this.table && index == pBkK(key, len(this.table))','//@   loop 1 invariant held(this.lock) && tab == this.table && index == pBkK(key, len(this.table))')])
ks.append('// Remove(k): k leaves the map; result its value, nil if it was absent\n'+rm+'\n')
cl=RK('func IntIntMap.clear').replace('IntKeyMap.clear','IntKeyMap.Clear')
cl=sub(cl,[('//@   requires pIKOK(this)','//@   requires pIKOK(this) && !held(this.lock)'),
           ('//@   ensures this.count == 0 && this.table == old(this.table)','//@   ensures this.count == 0 && this.table == old(this.table) && !held(this.lock)'),
           ('//@   loop 1 invariant tab == this.table && -1 <= index && index < len(tab)','//@   loop 1 invariant held(this.lock) && tab == this.table && -1 <= index && index < len(tab)')])
ks.append(cl+'\n')
# enumerator
ks.append('''// ---- enumerator ----
//@ ghost IntKeyEnumer.pMap *IntKeyMap
//@ ghost IntKeyEnumer.pDone map[mathint]bool
//@ ghost IntKeyEnumer.pSeen int
//@ ghost IntKeyEnumer.pOut map[mathint]mathint
//@ ghost IntKeyEnumer.pSeq map[mathint]mathint
''')
for k in ['pIIEnumOK','pIIRem','pIIEnumCnt','pIIEnumSeqA','pIIEnumSeqB','pIIEnumSeq']:
    ks.append(RK('pred '+k))
ks.append('''
//@ func NewIntKeyEnumer
//@   prop C12
//@   arith int
//@   ensures result != nil && fresh(result) && result.Type == Type && result.entry == nil && result.index == len(table) && result.table == table && result.lastReturned == nil
//@   ensures result.pSeen == 0 && (forall i mathint :: { result.pDone[i] } !result.pDone[i])
//@   set result.pMap := pIKOwner[table.arr]
//@   ensures result.pMap == pIKOwner[table.arr]
//@   nopanic
''')
for nm,ty in [('Keys',1),('Values',2),('Entries',3)]:
    b=RK('func IntIntMap.'+nm)
    b=sub(b,[('//@   requires pIKOK(this)','//@   requires pIKOK(this) && !held(this.lock)'),
             ('//@   modifies IntKeyEnumer.pMap','//@   ensures !held(this.lock)\n//@   modifies IntKeyEnumer.pMap')])
    ks.append(b+'\n')
ks.append(RK('func IntIntMapEnumer.HasMoreElements')+'\n')
ni=RK('func IntIntMapEnumer.NextInt')
ni=sub(ni,[('//@   ensures result == ite(this.Type == 1, this.lastReturned.Key, ite(this.Type == 2, this.lastReturned.Value, 0))','//@   ensures result == this.lastReturned.Key')])
ks.append(ni+'\n')
ne=RK('func IntIntMapEnumer.NextElement')
ne=sub(ne,[('//@   ensures this.Type == 2 ==> istype(result, "int32") && unboxint(result) == this.lastReturned.Value','//@   ensures this.Type == 2 ==> result == this.lastReturned.Value')])
ks.append(ne+'\n')
ka=RK('func IntIntMap.KeyArray')
ka=ka.replace('//@   with pCnt_some','//@   with pCnt_some pCnt_none')
ka=ka.replace('ptrof(en, "*hmap.IntKeyEnumer")','en').replace('istype(en, "*hmap.IntKeyEnumer") && fresh(en)','en != nil && fresh(en)')
ks.append(ka+'\n')
ks.append("""// PutAll(other): every pair of other is put into this (other's value wins); the keys other does not have, and other itself, are unchanged
//@ func IntKeyMap.PutAll
//@   prop C12
//@   arith int
//@   with pCnt_some pCnt_bounds
//@   requires other != nil ==> other != this && pIKOK(this) && pIKOK(other) && !held(this.lock) && !held(other.lock) && this.count + other.count < 2305843009213693952
//@   ensures other != nil ==> pIKTab(this) && pIKEnt(this) && pIKNext(this) && pIKHead(this) && pIKMax(this) && pIKSucc(this) && pIKCard(this) && !held(this.lock) && !held(other.lock)
//@   ensures other != nil ==> pIKTab(other) && pIKEnt(other) && pIKNext(other) && pIKHead(other) && pIKMax(other) && pIKSucc(other) && pIKCard(other) && other.pEnt == old(other.pEnt) && other.count == old(other.count)
//@   ensures other != nil ==> (forall k mathint :: { other.pEnt[k] } other.pEnt[k] != nil ==> other.pEnt[k].Value == old(other.pEnt[k].Value) && this.pEnt[k] != nil && this.pEnt[k].Value == other.pEnt[k].Value)
//@   ensures other != nil ==> (forall k mathint :: { this.pEnt[k] } other.pEnt[k] == nil ==> this.pEnt[k] == old(this.pEnt[k]) && (this.pEnt[k] != nil ==> this.pEnt[k].Value == old(this.pEnt[k].Value)))
//@   ensures other == nil ==> this.pEnt == old(this.pEnt) && this.count == old(this.count)
//@   modifies pIKOwner, this.table, this.threshold, this.count, this.pEnt, this.pKeyAt, this.table[:], this.pCur, IntKeyEntry.Next, IntKeyEntry.Value, IntKeyEntry.pRank, IntKeyEntry.pOwn, IntKeyEntry.pIdx, IntKeyEntry.pGen
//@   loop 1 invariant other != nil && other != this && !held(this.lock) && !held(other.lock) && istype(it, "*hmap.IntKeyEnumer") && fresh(ptrof(it, "*hmap.IntKeyEnumer")) && ptrof(it, "*hmap.IntKeyEnumer").pMap == other && ptrof(it, "*hmap.IntKeyEnumer").Type == 3
//@   loop 1 invariant pIKEnumOK(ptrof(it, "*hmap.IntKeyEnumer")) && pIKEnumCnt(ptrof(it, "*hmap.IntKeyEnumer")) && pIKEnumSeqA(ptrof(it, "*hmap.IntKeyEnumer")) && pIKEnumSeqB(ptrof(it, "*hmap.IntKeyEnumer"))
//@   loop 1 invariant pIKTab(this) && pIKEnt(this) && pIKNext(this) && pIKHead(this) && pIKMax(this) && pIKSucc(this) && pIKCard(this)
//@   loop 1 invariant pIKTab(other) && pIKEnt(other) && pIKNext(other) && pIKHead(other) && pIKMax(other) && pIKSucc(other) && pIKCard(other) && other.pEnt == old(other.pEnt) && other.count == old(other.count)
//@   loop 1 invariant this.count <= old(this.count) + ptrof(it, "*hmap.IntKeyEnumer").pSeen && ptrof(it, "*hmap.IntKeyEnumer").pSeen <= other.count
//@   loop 1 invariant forall k mathint :: { other.pEnt[k] } other.pEnt[k] != nil ==> other.pEnt[k].Value == old(other.pEnt[k].Value)
//@   loop 1 invariant forall k mathint :: { other.pEnt[k] } other.pEnt[k] != nil && !pIKRem(ptrof(it, "*hmap.IntKeyEnumer"), k) ==> this.pEnt[k] != nil && this.pEnt[k].Value == other.pEnt[k].Value
//@   loop 1 invariant forall k mathint :: { this.pEnt[k] } other.pEnt[k] == nil || pIKRem(ptrof(it, "*hmap.IntKeyEnumer"), k) ==> this.pEnt[k] == old(this.pEnt[k]) && (this.pEnt[k] != nil ==> this.pEnt[k].Value == old(this.pEnt[k].Value))
//@   loop 1 decreases other.count - ptrof(it, "*hmap.IntKeyEnumer").pSeen
//@   loop 1 assert e != nil && other.pEnt[e.Key] == e && !pIKRem(ptrof(it, "*hmap.IntKeyEnumer"), e.Key) && this.pEnt[e.Key] != nil && this.pEnt[e.Key].Value == e.Value
//@   nopanic
""")
kt=addwith_all('\n'.join(ks),'pBkK_range')
# every IntKeyMap unit except hash itself treats the bit-mixing hash as an uninterpreted function of the key
parts=re.split(r'(\n\s*\n)', kt)
for i,pp in enumerate(parts):
    if re.search(r'^//@ func ', pp, re.M) and '//@ func IntKeyMap.hash' not in pp:
        parts[i]=pp.replace('//@   arith int\n','//@   arith int\n//@   opaque pHashK\n',1)
out.append(''.join(parts))
# =====================================================================================
# entry types and the remaining small methods
# =====================================================================================
misc='''
// =====================================================================================
// entry types (plain accessors) and the remaining methods
// =====================================================================================
//@ func IntIntEntry.GetKey
//@   prop C12
//@   arith int
//@   ensures result == this.key
//@   pure
//@   nopanic

//@ func IntIntEntry.GetValue
//@   prop C12
//@   arith int
//@   ensures result == this.value
//@   pure
//@   nopanic

//@ func IntIntEntry.SetValue
//@   prop C12
//@   arith int
//@   ensures result == old(this.value) && this.value == v
//@   modifies this.value
//@   nopanic

//@ func IntIntEntry.Equals
//@   prop C12
//@   arith int
//@   ensures result == (this.key == o.key && this.value == o.value)
//@   pure
//@   nopanic if o != nil

//@ func IntKeyEntry.GetKey
//@   prop C12
//@   arith int
//@   ensures result == this.Key
//@   pure
//@   nopanic

//@ func IntKeyEntry.GetValue
//@   prop C12
//@   arith int
//@   ensures result == this.Value
//@   pure
//@   nopanic

//@ func NewIntKeyEntry
//@   prop C12
//@   arith int
//@   ensures result != nil && fresh(result) && result.Key == key && result.Value == value && result.Next == next
//@   nopanic

//@ func IntKeyEntry.Equals
//@   prop C12
//@   arith int
//@   ensures result == (this.Key == o.Key)
//@   pure
//@   nopanic if o != nil

//@ func NewIntSetry
//@   prop C12
//@   arith int
//@   ensures result != nil && fresh(result) && result.key == key && result.next == next
//@   nopanic

//@ func IntSetry.GetKey
//@   prop C12
//@   arith int
//@   ensures result == this.key
//@   pure
//@   nopanic

//@ func IntSetry.Get
//@   prop C12
//@   arith int
//@   ensures result == this.key
//@   pure
//@   nopanic

//@ func IntSetry.Equals
//@   prop C12
//@   arith int
//@   ensures result == (this.key == o.key)
//@   pure
//@   nopanic if o != nil

//@ func NewStringSetry
//@   prop C12
//@   arith int
//@   ensures result != nil && fresh(result) && result.key == key && result.next == next && result.hash == hash
//@   nopanic

//@ func StringSetry.GetKey
//@   prop C12
//@   arith int
//@   ensures result == this.key
//@   pure
//@   nopanic

//@ func StringSetry.Get
//@   prop C12
//@   arith int
//@   ensures result == this.key
//@   pure
//@   nopanic

// text renderings: no claim about the text, only termination of the walk without panic and an unchanged map
//@ func IntIntMap.ToString
//@   prop C12
//@   arith int
//@   requires pIIOK(this) && !held(this.lock)
//@   ensures !held(this.lock)
//@   loop 1 invariant held(this.lock) && istype(x, "*hmap.IntIntMapEnumer") && fresh(ptrof(x, "*hmap.IntIntMapEnumer")) && ptrof(x, "*hmap.IntIntMapEnumer").pMap == this && ptrof(x, "*hmap.IntIntMapEnumer").Type == 3
//@   loop 1 invariant pIIEnumOK(ptrof(x, "*hmap.IntIntMapEnumer")) && pIIEnumCnt(ptrof(x, "*hmap.IntIntMapEnumer")) && pIIEnumSeqA(ptrof(x, "*hmap.IntIntMapEnumer")) && pIIEnumSeqB(ptrof(x, "*hmap.IntIntMapEnumer"))
//@   nopanic

//@ func IntSet.toString
//@   prop C12
//@   arith int
//@   requires pISOK(this)
//@   loop 1 invariant it != nil && fresh(it) && it.pMap == this && pISEnumOK(it) && pISEnumCnt(it) && pISEnumSeqA(it) && pISEnumSeqB(it)
//@   nopanic

//@ func IntSet.ToString
//@   prop C12
//@   arith int
//@   requires pISOK(this) && !held(this.lock)
//@   ensures !held(this.lock)
//@   nopanic

//@ func IntKeyMap.ToString
//@   prop C12
//@   arith int
//@   with pBkK_range
//@   opaque pHashK
//@   requires pIKOK(this) && !held(this.lock)
//@   ensures !held(this.lock)
//@   loop 1 invariant !held(this.lock) && istype(it, "*hmap.IntKeyEnumer") && fresh(ptrof(it, "*hmap.IntKeyEnumer")) && ptrof(it, "*hmap.IntKeyEnumer").pMap == this && ptrof(it, "*hmap.IntKeyEnumer").Type == 3
//@   loop 1 invariant pIKEnumOK(ptrof(it, "*hmap.IntKeyEnumer")) && pIKEnumCnt(ptrof(it, "*hmap.IntKeyEnumer")) && pIKEnumSeqA(ptrof(it, "*hmap.IntKeyEnumer")) && pIKEnumSeqB(ptrof(it, "*hmap.IntKeyEnumer"))
//@   nopanic

//@ func IntKeyMap.ToFormatString
//@   prop C12
//@   arith int
//@   with pBkK_range
//@   opaque pHashK
//@   requires pIKOK(this) && !held(this.lock)
//@   ensures !held(this.lock)
//@   loop 1 invariant !held(this.lock) && istype(it, "*hmap.IntKeyEnumer") && fresh(ptrof(it, "*hmap.IntKeyEnumer")) && ptrof(it, "*hmap.IntKeyEnumer").pMap == this && ptrof(it, "*hmap.IntKeyEnumer").Type == 3
//@   loop 1 invariant pIKEnumOK(ptrof(it, "*hmap.IntKeyEnumer")) && pIKEnumCnt(ptrof(it, "*hmap.IntKeyEnumer")) && pIKEnumSeqA(ptrof(it, "*hmap.IntKeyEnumer")) && pIKEnumSeqB(ptrof(it, "*hmap.IntKeyEnumer"))
//@   nopanic

// valueSum: walks the whole value enumeration (no panic: HasMoreElements guards every NextInt)
//@ func IntIntMap.valueSum
//@   prop C12
//@   arith int
//@   requires pIIOK(this)
//@   loop 1 invariant istype(en, "*hmap.IntIntMapEnumer") && fresh(ptrof(en, "*hmap.IntIntMapEnumer")) && ptrof(en, "*hmap.IntIntMapEnumer").pMap == this
//@   loop 1 invariant pIIEnumOK(ptrof(en, "*hmap.IntIntMapEnumer")) && pIIEnumCnt(ptrof(en, "*hmap.IntIntMapEnumer")) && pIIEnumSeqA(ptrof(en, "*hmap.IntIntMapEnumer")) && pIIEnumSeqB(ptrof(en, "*hmap.IntIntMapEnumer"))
//@   nopanic
'''
out.append(misc)
out.append("""
// =====================================================================================
// harnesses (zz_plain_lemmas_verif.go)
// =====================================================================================
//@ lemmafn verif_p_ii_sequence
//@   prop C12
//@   arith int
//@   nopanic

//@ lemmafn verif_p_is_sequence
//@   prop C12
//@   arith int
//@   nopanic

//@ lemmafn verif_p_ss_sequence
//@   prop C12
//@   arith int
//@   with pBkS_range
//@   opaque hash.crc32fold
//@   nopanic

//@ lemmafn verif_p_ik_sequence
//@   prop C12
//@   arith int
//@   with pBkK_range
//@   opaque pHashK
//@   nopanic

// a map built with capacity 0 has one bucket and behaves like any other
//@ lemmafn verif_p_ii_zero_capacity
//@   prop C12
//@   arith int
//@   nopanic
""")
#FINAL
final=re.sub(r'\n{3,}','\n\n','\n'.join(out)).rstrip('\n')+'\n'
open(OUT,'w').write(final)
