#!/bin/bash
# usage: try_mutant.sh <mutant dir with patch.diff demo_test.go meta.json> <seeded id> <property> [more properties]
# Confirms the mutant in a scratch worktree (compiles, suite still passes, demo fails with / passes without), runs the
# property checks against it, and stores it under /verif/seeded/<id>/ with the outcome.
export GOFLAGS=-mod=mod GOPROXY=off GOSUMDB=off GOTOOLCHAIN=local
M=$1; ID=$2; shift 2
WT=/tmp/seedwt_$ID
rm -rf $WT; git -C /repo worktree prune; git -C /repo worktree add --detach $WT HEAD >/dev/null 2>&1 || { echo "worktree failed"; exit 2; }
pkgdir=$(grep -m1 -o 'package directory[^*]*' $M/demo_test.go | head -1)
# demo placement: first line comment names the dir; fall back to the directory of the first patched file
ddir=$(grep -m1 '^+++ b/' $M/patch.diff | sed 's#^+++ b/##; s#/[^/]*$##')
hint=$(head -5 $M/demo_test.go | grep -o '[a-z][a-zA-Z0-9]*/[a-zA-Z0-9/]*' | grep -v '^http' | head -1)
[ -n "$hint" ] && [ -d "$WT/$hint" ] && ddir=$hint
cp $M/demo_test.go $WT/$ddir/zz_seed_demo_test.go
# run only the demonstration's own tests (net/oneway has two tests that fail offline)
DEMORUN="^($(grep -o "^func Test[A-Za-z0-9_]*" $M/demo_test.go | sed "s/func //" | paste -sd"|"))\$"
( cd $WT/$ddir && go test -vet=off -count=1 -run "$DEMORUN" . > /tmp/seed_$ID.base 2>&1 ); base=$?
git -C $WT apply $M/patch.diff || { echo "patch does not apply"; git -C /repo worktree remove --force $WT; exit 2; }
( cd $WT && go build ./... ) > /tmp/seed_$ID.build 2>&1; build=$?
( cd $WT/$ddir && go test -vet=off -count=1 -run "$DEMORUN" . > /tmp/seed_$ID.mut 2>&1 ); mut=$?
rm $WT/$ddir/zz_seed_demo_test.go
( cd $WT && go test -vet=off -count=1 ./... 2>&1 | grep -E "^--- FAIL" | grep -v "TestMultiConnect\|TestSingleConnect" > /tmp/seed_$ID.suite ); 
suite=$(wc -l < /tmp/seed_$ID.suite)
echo "demo on unchanged tree exit=$base (want 0); build=$build (want 0); demo with mutant exit=$mut (want !=0); suite failures other than the two offline tests: $suite (want 0)"
res=""
for P in "$@"; do
  out=$(cd /verif && bin/govc check -p $P -root $WT 2>&1)
  ex=$?
  nv=$(echo "$out" | grep -c '^VIOLATION')
  echo "check $P on mutant: exit=$ex violations=$nv"
  echo "$out" | grep '^VIOLATION' | head -3 | cut -c1-300
  res="$res $P:exit=$ex:violations=$nv"
  # the check run with -root rewrote evidence for a foreign tree: restore the committed evidence
  git -C /verif checkout -- evidence/$P.json 2>/dev/null
done
mkdir -p /verif/seeded/$ID
cp $M/patch.diff $M/meta.json /verif/seeded/$ID/ ; cp $M/demo_test.go /verif/seeded/$ID/demo_test.go
python3 - "$ID" "$base" "$build" "$mut" "$suite" "$res" "$ddir" <<'PY'
import json,sys
ID,base,build,mut,suite,res,ddir=sys.argv[1:8]
p='/verif/seeded/%s/meta.json'%ID
m=json.load(open(p))
m['demo_dir']=ddir
m['confirmed']={'demo_passes_unchanged':base=='0','compiles':build=='0','demo_fails_with_mutant':mut!='0','suite_regressions':int(suite)}
m['checks']=[r for r in res.split() if r]
json.dump(m,open(p,'w'),indent=1)
PY
git -C /repo worktree remove --force $WT
