import subprocess, shutil, sys, os, re
ROOT='/tmp/ag_c05/repo/lang/pack/'
env=dict(os.environ, GOFLAGS='-mod=mod', GOPROXY='off', GOSUMDB='off', GOTOOLCHAIN='local')
# (name, file, [(old,new,count)], unit)
M=[
('M1 header marker 9->8 (Write and Read)','AbstractPack.go',[('dout.WriteByte(9)','dout.WriteByte(8)'),('if ver <= 8 {','if ver <= 7 {')],'pack.AbstractPack.Write'),
('M2 header form2: okind/onode swapped (W+R)','AbstractPack.go',[('dout.WriteInt(this.Okind)\n\t\tdout.WriteInt(this.Onode)','dout.WriteInt(this.Onode)\n\t\tdout.WriteInt(this.Okind)'),('this.Okind = din.ReadInt()\n\tthis.Onode = din.ReadInt()','this.Onode = din.ReadInt()\n\tthis.Okind = din.ReadInt()')],'pack.AbstractPack.Write'),
('M3 header form1: time as decimal instead of int64 (W+R)','AbstractPack.go',[('dout.WriteInt(this.Oid)\n\t\tdout.WriteLong(this.Time)\n\t} else','dout.WriteInt(this.Oid)\n\t\tdout.WriteDecimal(this.Time)\n\t} else'),('this.Time = din.ReadLong()\n\t\treturn','this.Time = din.ReadDecimal()\n\t\treturn')],'pack.AbstractPack.Write'),
('M4 hitmap version byte 1->2 (W+R)','HitMapPack1.go',[('dout.WriteByte(1)','dout.WriteByte(2)'),('if ver == 1 {','if ver == 2 {')],'pack.HitMapPack1.Write'),
('M5 hitmap error before hit (W+R)','HitMapPack1.go',[('dout.WriteShort(int16(this.Hit[i]))\n\t\tdout.WriteShort(int16(this.Error[i]))','dout.WriteShort(int16(this.Error[i]))\n\t\tdout.WriteShort(int16(this.Hit[i]))'),('this.Hit[i] = int32(din.ReadShort()) & 0xffff\n\t\t\tthis.Error[i] = int32(din.ReadShort()) & 0xffff','this.Error[i] = int32(din.ReadShort()) & 0xffff\n\t\t\tthis.Hit[i] = int32(din.ReadShort()) & 0xffff')],'pack.HitMapPack1.Write'),
('M6 text: hash before div (W+R)','TextPack.go',[('dout.WriteByte(r.Div)\n\t\tdout.WriteInt(r.Hash)','dout.WriteInt(r.Hash)\n\t\tdout.WriteByte(r.Div)'),('div := din.ReadByte()\n\t\thash := din.ReadInt()','hash := din.ReadInt()\n\t\tdiv := din.ReadByte()')],'pack.TextPack.Write'),
('M7 text: count as int32 instead of decimal (W+R)','TextPack.go',[('dout.WriteDecimal(int64(len(this.records)))','dout.WriteInt(int32(len(this.records)))'),('size := int(din.ReadDecimal())','size := int(din.ReadInt())')],'pack.TextPack.Write'),
('M8 zip: record count before status (W+R)','ZipPack.go',[('dout.WriteByte(this.Status)\n\tdout.WriteDecimal(int64(this.RecordCount))','dout.WriteDecimal(int64(this.RecordCount))\n\tdout.WriteByte(this.Status)'),('this.Status = din.ReadByte()\n\tthis.RecordCount = int(din.ReadDecimal())','this.RecordCount = int(din.ReadDecimal())\n\tthis.Status = din.ReadByte()')],'pack.ZipPack.Write'),
('M9 zip: records with 4-byte length instead of blob prefix (W+R)','ZipPack.go',[('dout.WriteBlob(this.Records)','dout.WriteIntBytes(this.Records)'),('this.Records = din.ReadBlob()','this.Records = din.ReadIntBytes()')],'pack.ZipPack.Write'),
('M10 tagcount: version byte dropped (W+R)','TagCountPack.go',[('this.AbstractPack.Write(dout)\n\tdout.WriteByte(0)\n','this.AbstractPack.Write(dout)\n'),('\tdin.ReadByte()\n\tthis.Category','\tthis.Category')],'pack.TagCountPack.Write'),
('M11 tagcount: tag hash after the tag map in branch B (W+R)','TagCountPack.go',[('\t\tdout.WriteDecimal(this.tagHash)\n\t\tvalue.WriteValue(dout, this.Tags)','\t\tvalue.WriteValue(dout, this.Tags)\n\t\tdout.WriteDecimal(this.tagHash)'),('this.tagHash = din.ReadDecimal()\n\tthis.Tags = value.ReadValue(din).(*value.MapValue)','this.Tags = value.ReadValue(din).(*value.MapValue)\n\tthis.tagHash = din.ReadDecimal()')],'pack.TagCountPack.Write'),
('M12 tagcount: hash over the map body without its type byte','TagCountPack.go',[('this.tagHash = hash.Hash64(tagBytes)','this.tagHash = hash.Hash64(tagBytes[1:])')],'pack.TagCountPack.Write'),
('M13 tagcount: data map before tag hash/tags? -> data and tags swapped in branch B (W+R)','TagCountPack.go',[('\t\tvalue.WriteValue(dout, this.Tags)\n\t}\n\tvalue.WriteValue(dout, this.Data)','\t\tvalue.WriteValue(dout, this.Data)\n\t}\n\tvalue.WriteValue(dout, this.Tags)')],'pack.TagCountPack.Write'),
('M14 logsink: content before line (W+R)','LogSinkPack.go',[('dout.WriteDecimal(this.Line)\n\tdout.WriteText(this.Content)','dout.WriteText(this.Content)\n\tdout.WriteDecimal(this.Line)'),('this.Line = din.ReadDecimal()\n\tthis.Content = din.ReadText()\n\tif','this.Content = din.ReadText()\n\tthis.Line = din.ReadDecimal()\n\tif')],'pack.LogSinkPack.Write'),
('M15 logsink: presence flag inverted (W+R)','LogSinkPack.go',[('dout.WriteBool(true)\n\t\tvalue.WriteMapValue(dout, this.Fields)\n\t} else {\n\t\tdout.WriteBool(false)','dout.WriteBool(false)\n\t\tvalue.WriteMapValue(dout, this.Fields)\n\t} else {\n\t\tdout.WriteBool(true)'),('if din.ReadBool() {','if !din.ReadBool() {')],'pack.LogSinkPack.Write'),
('M16 logsink ResetTagHash: hash of the category instead of the tag bytes','LogSinkPack.go',[('this.TagHash = hash.Hash64(tagBytes)','this.TagHash = hash.Hash64([]byte(this.Category))')],'pack.LogSinkPack.ResetTagHash,pack.LogSinkPack.Write'),
('M17 logsink: spliced bytes are a second encoding (hash over one buffer, another one written)','LogSinkPack.go',[('\t\ttagBytes := this.ResetTagHash()\n','\t\tthis.ResetTagHash()\n\t\ttagBytes := this.GetContentBytes()\n')],'pack.LogSinkPack.Write'),
('M18 param: response before request (W+R)','ParamPack.go',[('dout.WriteDecimal(this.Request)\n\tdout.WriteDecimal(this.Response)','dout.WriteDecimal(this.Response)\n\tdout.WriteDecimal(this.Request)'),('this.Request = din.ReadDecimal()\n\tthis.Response = din.ReadDecimal()','this.Response = din.ReadDecimal()\n\tthis.Request = din.ReadDecimal()')],'pack.ParamPack.Write'),
('M19 param: value before key (W+R)','ParamPack.go',[('\t\tdout.WriteText(key)\n\t\tval.WriteValue(dout, value)','\t\tval.WriteValue(dout, value)\n\t\tdout.WriteText(key)'),('\t\tkey := din.ReadText()\n\t\tvalue := val.ReadValue(din)\n\t\tthis.table.Put','\t\tvalue := val.ReadValue(din)\n\t\tkey := din.ReadText()\n\t\tthis.table.Put')],'pack.ParamPack.Write'),
('M20 param: id as decimal (W+R)','ParamPack.go',[('dout.WriteInt(this.Id)','dout.WriteDecimal(int64(this.Id))'),('this.Id = din.ReadInt()','this.Id = int32(din.ReadDecimal())')],'pack.ParamPack.Write'),
('M21 event: message before title (W+R)','EventPack.go',[('dout.WriteText(this.Title)\n\tdout.WriteText(this.Message)','dout.WriteText(this.Message)\n\tdout.WriteText(this.Title)'),('this.Title = din.ReadText()\n\tthis.Message = din.ReadText()','this.Message = din.ReadText()\n\tthis.Title = din.ReadText()')],'pack.EventPack.Write'),
('M22 event: status stored before escalation','EventPack.go',[('\tthis.Attr.Put(STATUS_KEY, fmt.Sprintf("%d", this.Status))\n',''),('\tif this.Escalation {','\tthis.Attr.Put(STATUS_KEY, fmt.Sprintf("%d", this.Status))\n\tif this.Escalation {')],'pack.EventPack.Write'),
('M23 event: escalation as "1"/"0" (W+R)','EventPack.go',[('this.Attr.Put(ESCALATION_KEY, "true")','this.Attr.Put(ESCALATION_KEY, "1")'),('this.Attr.Put(ESCALATION_KEY, "false")','this.Attr.Put(ESCALATION_KEY, "0")'),('if val.(string) == "true" {','if val.(string) == "1" {')],'pack.EventPack.Write'),
('M24 event: otype key renamed (W+R via constant)','EventPack.go',[('OTYPE_KEY      string = "_otype_"','OTYPE_KEY      string = "_otyp_"')],'pack.EventPack.Write'),
('M25 event: level after title (W+R)','EventPack.go',[('dout.WriteByte(this.Level)\n\tdout.WriteText(this.Title)','dout.WriteText(this.Title)\n\tdout.WriteByte(this.Level)'),('this.Level = din.ReadByte()\n\tthis.Title = din.ReadText()','this.Title = din.ReadText()\n\tthis.Level = din.ReadByte()')],'pack.EventPack.Write'),
]
sel=sys.argv[1:] 
for name,f,reps,unit in M:
    if sel and not any(name.startswith(s+' ') for s in sel): continue
    p=ROOT+f
    orig=open(p).read()
    s=orig
    ok=True
    for old,new in reps:
        if old not in s:
            print('!! pattern not found in',f,':',old[:50].replace('\n','\\n')); ok=False; break
        s=s.replace(old,new,1)
    if not ok: continue
    open(p,'w').write(s)
    try:
        r=subprocess.run(['/tmp/ag_c05/govc.bin','verify','-root','/tmp/ag_c05/repo','-pkgs','./lang/pack','-f',unit,'-t','8'],cwd='/tmp/ag_c05',env=env,capture_output=True,text=True,timeout=1500)
        out=r.stdout+r.stderr
        fails=[l.strip() for l in out.split('\n') if 'FAIL' in l or 'SPEC-ERROR' in l or 'error' in l.lower()]
        # ignore the known finding obligation of EventPack (fails on the unmutated code too)
        fails2=[l for l in fails if not l.rstrip().endswith('+ 3), this.Attr.n)')]
        tot=[l for l in out.split('\n') if l.startswith('TOTAL')]
        print(('CAUGHT ' if fails2 else 'MISSED ')+name, '|', tot[0] if tot else out[-300:])
        for l in fails2[:4]: print('      ', re.sub(r'\s+',' ',l)[:230])
    finally:
        open(p,'w').write(orig)
    sys.stdout.flush()
