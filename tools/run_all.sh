#!/bin/sh
# developer aid: run every property check that has contracts and print the summary lines
cd /verif
for p in "$@"; do
  /usr/bin/time -f "%es" ./check.sh $p quick > /tmp/runall_$p.out 2>&1
  echo "$p exit=$? $(grep '^property=' /tmp/runall_$p.out | tail -1) $(tail -1 /tmp/runall_$p.out)"
  grep -c '^VIOLATION' /tmp/runall_$p.out | sed "s/^/   violations: /"
done
