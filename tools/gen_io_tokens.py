#!/usr/bin/env python3
# generates /repo/io/zz_tokens_verif.go : the abstract token view ("tok") of the io stream methods
K={'BYTE':1,'SHORT':2,'INT3':3,'INT':4,'LONG5':5,'LONG':6,'FLOAT':7,'DOUBLE':8,'DECBODY':9,'BLOB':10,'INTBYTES':11,'SHORTBYTES':12,'TEXTSHORT':13,'RAW':14,
   'ARR_SHORT':20,'ARR_INT':21,'ARR_LONG':22,'ARR_FLOAT':23,'ARR_DOUBLE':24,'ARR_TEXT':25}
out=[]
w=out.append
w('''//go:build verif

// Token view ("tok") of the stream codec, used by the codec layers above io (values, packs, steps, records).
// Above the primitives a stream is a sequence of typed tokens instead of bytes: each Write* appends the token(s)
// of its argument and each Read* consumes a token of the matching kind and returns its payload. Reading a token of
// a different kind is an alignment failure (a failed precondition). These clauses (tagged @tok) are NOT checked against
// the bodies: they are the abstraction of the byte-level contracts in zz_contracts_verif.go, justified by the byte-level
// round-trip / exact-consumption lemmas proved there (verif_rt_*): a token stands for its bytes, each primitive is
// self-delimiting and decodes to what was encoded. Callers select this view with `view tok`; every use is reported as an assumption.
//
// Token kinds: 1 byte/bool, 2 short, 3 int3, 4 int, 5 long5, 6 long, 7 float, 8 double, 9 decimal body (preceded by a
// byte token holding the decimal length class, so the pack header can read that byte separately), 10 blob/text,
// 11 int-length bytes, 12 short-length bytes, 13 short-length text, 14 raw bytes, 20..25 typed arrays.
// Payloads: ti integer (also float bit patterns, lengths), ts string/bytes content, tr origin array of a byte payload
// (so that a nested stream written as a blob is recognised when it is read back), to origin offset (arrays).

package io

//@ ghost DataOutputX.tn int
//@ ghost DataOutputX.tk map[int]int
//@ ghost DataOutputX.ti map[int]int
//@ ghost DataOutputX.ts map[int]string
//@ ghost DataOutputX.tr map[int]ref
//@ ghost DataOutputX.to map[int]int
//@ ghost DataInputX.tn int
//@ ghost DataInputX.tp int
//@ ghost DataInputX.tk map[int]int
//@ ghost DataInputX.ti map[int]int
//@ ghost DataInputX.ts map[int]string
//@ ghost DataInputX.tr map[int]ref
//@ ghost DataInputX.to map[int]int
// the token stream denoted by a byte array (set by ToByteArray, consulted by NewDataInputX, carried through blobs)
// the (never modified) initial token maps of a fresh output stream
//@ ghost E_k map[int]int
//@ ghost E_i map[int]int
//@ ghost E_s map[int]string
//@ ghost E_r map[int]ref
//@ ghost E_o map[int]int
//@ ghost S_n map[ref]int
//@ ghost S_k map[ref]map[int]int
//@ ghost S_i map[ref]map[int]int
//@ ghost S_s map[ref]map[int]string
//@ ghost S_r map[ref]map[int]ref
//@ ghost S_o map[ref]map[int]int

//@ extend func NewDataOutputX
//@   ensures@tok result != nil && fresh(result) && result.tn == 0 && result.tk == E_k && result.ti == E_i && result.ts == E_s && result.tr == E_r && result.to == E_o

//@ extend func DataOutputX.ToByteArray
//@   ensures@tok fresh(result.arr) && S_n == old(S_n)[result.arr := out.tn] && S_k == old(S_k)[result.arr := out.tk] && S_i == old(S_i)[result.arr := out.ti] && S_s == old(S_s)[result.arr := out.ts] && S_r == old(S_r)[result.arr := out.tr] && S_o == old(S_o)[result.arr := out.to]
//@   modifies@tok S_n, S_k, S_i, S_s, S_r, S_o

//@ extend func NewDataInputX
//@   ensures@tok result != nil && fresh(result) && result.tp == 0 && result.tn == S_n[buf.arr] && result.tk == S_k[buf.arr] && result.ti == S_i[buf.arr] && result.ts == S_s[buf.arr] && result.tr == S_r[buf.arr] && result.to == S_o[buf.arr]

//@ extend func DataInputX.Available
//@   ensures@tok result >= 0 && ((result > 0) <==> (in.tp < in.tn))
''')
def wr(name, param, kind, fields, ret=True, extra_req=''):
    # fields: dict of ghost map -> value expr
    ens=['out.tn == old(out.tn) + 1','out.tk == old(out.tk)[old(out.tn) := %d]'%K[kind]]
    mods=['out.tn','out.tk']
    for g,v in fields.items():
        ens.append('out.%s == old(out.%s)[old(out.tn) := %s]'%(g,g,v)); mods.append('out.'+g)
    if ret: ens.append('result == out')
    w('//@ extend func DataOutputX.%s'%name)
    if extra_req: w('//@   requires@tok '+extra_req)
    w('//@   ensures@tok '+' && '.join(ens))
    w('//@   modifies@tok '+', '.join(mods))
    w('')
def rd(name, kinds, result_ens, extra=''):
    ks=' || '.join('in.tk[in.tp] == %d'%K[k] for k in kinds)
    w('//@ extend func DataInputX.%s'%name)
    w('//@   requires@tok in.tp < in.tn && (%s)'%ks)
    w('//@   ensures@tok in.tp == old(in.tp) + 1 && '+result_ens+extra)
    w('//@   modifies@tok in.tp')
    w('')
P='old(in.tp)'
wr('WriteByte','b','BYTE',{'ti':'int(b)'})
wr('WriteBool','b','BYTE',{'ti':'ite(b, 1, 0)'})
wr('WriteShort','b','SHORT',{'ti':'int(b)'})
wr('WriteUShort','b','SHORT',{'ti':'int(int16(b))'})
wr('WriteInt3','b','INT3',{'ti':'int(goarith((b << 8) >> 8))'})
wr('WriteInt','b','INT',{'ti':'int(b)'})
wr('WriteLong5','b','LONG5',{'ti':'int(goarith((b << 24) >> 24))'})
wr('WriteLong','b','LONG',{'ti':'int(b)'})
wr('WriteFloat','b','FLOAT',{'ti':'int(bits(b))'})
wr('WriteDouble','b','DOUBLE',{'ti':'int(bits(b))'})
wr('WriteBlob','value','BLOB',{'ts':'string(value)','tr':'value.arr'})
wr('WriteText','s','BLOB',{'ts':'s','tr':'nil'})
wr('WriteIntBytes','b','INTBYTES',{'ts':'string(b)','tr':'b.arr'})
wr('WriteShortBytes','b','SHORTBYTES',{'ts':'string(b)','tr':'b.arr'})
wr('WriteTextShortLength','v','TEXTSHORT',{'ts':'v'},ret=False)
wr('WriteBytes','b','RAW',{'ts':'string(b)','tr':'b.arr'})
wr('Write','b','RAW',{'ts':'string(b[off:off+sz])','tr':'b.arr'})
# decimal: two tokens
w('''//@ extend func DataOutputX.WriteDecimal
//@   ensures@tok out.tn == old(out.tn) + 2 && out.tk == old(out.tk)[old(out.tn) := 1][old(out.tn)+1 := 9] && out.ti == old(out.ti)[old(out.tn) := int(declen(v))][old(out.tn)+1 := int(v)] && result == out
//@   modifies@tok out.tn, out.tk, out.ti
''')
for nm,kind,et in [('Short','ARR_SHORT','int16'),('Int','ARR_INT','int32'),('Long','ARR_LONG','int64'),('Float','ARR_FLOAT','float32'),('Double','ARR_DOUBLE','float64'),('Text','ARR_TEXT','string')]:
    w('//@ extend func DataOutputX.Write%sArray'%nm)
    w('//@   ensures@tok out.tn == old(out.tn) + 1 && out.tk == old(out.tk)[old(out.tn) := %d] && out.ti == old(out.ti)[old(out.tn) := int(int16(len(v)))] && out.tr == old(out.tr)[old(out.tn) := v.arr] && out.to == old(out.to)[old(out.tn) := v.off]'%K[kind])
    w('//@   modifies@tok out.tn, out.tk, out.ti, out.tr, out.to')
    w('')
rd('ReadByte',['BYTE'],'int(result) == in.ti[%s]'%P)
rd('ReadBool',['BYTE'],'(result <==> in.ti[%s] == 1)'%P)
rd('ReadShort',['SHORT'],'int(result) == in.ti[%s]'%P)
rd('ReadUShort',['SHORT'],'result == uint16(int16(in.ti[%s]))'%P)
rd('ReadUnsignedShort',['SHORT'],'result == uint16(int16(in.ti[%s]))'%P)
rd('ReadInt3',['INT3'],'int(result) == in.ti[%s]'%P)
rd('ReadInt',['INT'],'int(result) == in.ti[%s]'%P)
rd('ReadUnsignedInt',['INT'],'result == uint32(int32(in.ti[%s]))'%P)
rd('ReadLong5',['LONG5'],'int(result) == in.ti[%s]'%P)
rd('ReadLong',['LONG'],'int(result) == in.ti[%s]'%P)
rd('ReadFloat',['FLOAT'],'int(bits(result)) == in.ti[%s]'%P)
rd('ReadDouble',['DOUBLE'],'int(bits(result)) == in.ti[%s]'%P)
rd('ReadText',['BLOB'],'result == in.ts[%s]'%P)
rd('ReadTextShortLength',['TEXTSHORT'],'result == in.ts[%s]'%P)
def rdbytes(name,kind):
    w('//@ extend func DataInputX.%s'%name)
    w('//@   requires@tok in.tp < in.tn && in.tk[in.tp] == %d'%K[kind])
    w('//@   ensures@tok in.tp == old(in.tp) + 1 && result != nil && fresh(result.arr) && len(result) == len(in.ts[%s]) && string(result) == in.ts[%s] && (forall i int :: 0 <= i && i < len(result) ==> result[i] == in.ts[%s][i])'%(P,P,P))
    w('//@   ensures@tok let o = in.tr[%s] in S_n == old(S_n)[result.arr := old(S_n[o])] && S_k == old(S_k)[result.arr := old(S_k[o])] && S_i == old(S_i)[result.arr := old(S_i[o])] && S_s == old(S_s)[result.arr := old(S_s[o])] && S_r == old(S_r)[result.arr := old(S_r[o])] && S_o == old(S_o)[result.arr := old(S_o[o])]'%P)
    w('//@   modifies@tok in.tp, S_n, S_k, S_i, S_s, S_r, S_o')
    w('')
rdbytes('ReadBlob','BLOB'); rdbytes('ReadIntBytes','INTBYTES'); rdbytes('ReadShortBytes','SHORTBYTES')
w('''//@ extend func DataInputX.ReadBytes
//@   requires@tok in.tp < in.tn && in.tk[in.tp] == 14 && int(sz) == len(in.ts[in.tp])
//@   ensures@tok in.tp == old(in.tp) + 1 && fresh(result.arr) && len(result) == int(sz) && string(result) == in.ts[old(in.tp)] && (forall i int :: 0 <= i && i < len(result) ==> result[i] == in.ts[old(in.tp)][i])
//@   modifies@tok in.tp

//@ extend func DataInputX.ReadDecimal
//@   requires@tok in.tp + 1 < in.tn && in.tk[in.tp] == 1 && in.tk[in.tp+1] == 9
//@   ensures@tok in.tp == old(in.tp) + 2 && int(result) == in.ti[old(in.tp)+1]
//@   modifies@tok in.tp

//@ extend func DataInputX.ReadDecimalLen
//@   requires@tok in.tp < in.tn && in.tk[in.tp] == 9 && sz == int(declen(int64(in.ti[in.tp])))
//@   ensures@tok in.tp == old(in.tp) + 1 && int(result) == in.ti[old(in.tp)]
//@   modifies@tok in.tp
''')
for nm,kind,et in [('Short','ARR_SHORT','int16'),('Int','ARR_INT','int32'),('Long','ARR_LONG','int64'),('Float','ARR_FLOAT','float32'),('Double','ARR_DOUBLE','float64'),('Text','ARR_TEXT','string')]:
    w('//@ extend func DataInputX.Read%sArray'%nm)
    w('//@   requires@tok in.tp < in.tn && in.tk[in.tp] == %d && in.ti[in.tp] >= 0'%K[kind])
    w('//@   ensures@tok in.tp == old(in.tp) + 1 && result != nil && fresh(result.arr) && len(result) == in.ti[%s] && (forall i int :: { result[i] } 0 <= i && i < len(result) ==> result[i] == old(elemof("%s", in.tr[in.tp], in.to[in.tp] + i)))'%(P,et))
    w('//@   modifies@tok in.tp')
    w('')
open('/repo/io/zz_tokens_verif.go','w').write('\n'.join(out)+'\n')
