#!/usr/bin/env python3
"""Rewrites the block between <!-- STATUS:BEGIN --> and <!-- STATUS:END --> in /verif/DESIGN.md from the evidence files,
known_findings.json and the seeded-change metadata, so that the as-built tables are what the checks last reported."""
import json, os, glob, re

V = '/verif'


def load(p):
    try:
        return json.load(open(p))
    except Exception:
        return None


def main():
    man = load(V + '/MANIFEST.json')
    claimed = [c['property_id'] for c in man['checks']]
    na = {n['property_id']: n['reason'] for n in man.get('not_applicable', [])}
    kf = load(V + '/known_findings.json')
    out = []
    out.append('| id | status | units | obligations | discharged | known findings | bounded stand-ins (not counted) | quick wall (s, last run) |')
    out.append('|----|--------|-------|-------------|------------|----------------|--------------------------------|--------------------------|')
    props = [json.loads(l)['id'] for l in open(V + '/properties.jsonl')]
    for pid in props:
        if pid in claimed:
            e = load(V + '/evidence/%s.json' % pid) or {}
            c = e.get('coverage', {})
            nk = len([f for f in kf['findings'] if f['property'] == pid])
            bs = c.get('bounded_standins', [])
            out.append('| %s | claimed (%s) | %s | %s | %s | %d | %s | %s |' % (
                pid, e.get('level', '?'), c.get('n_units', '?'), c.get('obligations', '?'), c.get('discharged', '?'), nk,
                '; '.join((b.get('function', '?') if isinstance(b, dict) else str(b)) for b in bs) if bs else '—', ('%.0f' % e['wall_s']) if 'wall_s' in e else '?'))
        else:
            out.append('| %s | not applicable / not claimed | — | — | — | — | — | — |' % pid)
    out.append('')
    out.append('Known findings (genuine defects recorded, not repaired; each is matched by obligation name, so any other failing obligation is still a violation):')
    out.append('')
    byp = {}
    for f in kf['findings']:
        byp.setdefault(f['property'], []).append(f)
    for pid in sorted(byp):
        fs = byp[pid]
        if len(fs) > 12:
            out.append('* **%s** — %d entries (see known_findings.json); e.g. `%s`: %s' % (pid, len(fs), fs[0]['obligation'], fs[0]['what']))
        else:
            for f in fs:
                out.append('* **%s** `%s` — %s' % (pid, f['obligation'], f['what']))
    out.append('')
    out.append('Repaired defects (`fix:` commits in /repo; the check passes on the repaired tree and reports the violation again if it returns):')
    out.append('')
    for f in kf.get('fixed', []):
        out.append('* **%s** %s — %s' % (f['property'], f['commit'], f['what']))
    out.append('')
    out.append('Seeded changes (each compiles, passes the repository\'s test suite, and breaks the property on the real code as shown by its demonstration test):')
    out.append('')
    out.append('| seeded change | what it does | outcome of the checks |')
    out.append('|---|---|---|')
    for d in sorted(glob.glob(V + '/seeded/*/')):
        m = load(d + 'meta.json') or {}
        name = os.path.basename(d.rstrip('/'))
        what = (m.get('what') or '').replace('|', '/').replace('\n', ' ')
        if len(what) > 220:
            what = what[:217] + '...'
        checks = ', '.join(m.get('checks', [])) or '?'
        out.append('| %s | %s | %s |' % (name, what, checks))
    block = '\n'.join(out)
    p = V + '/DESIGN.md'
    s = open(p).read()
    s2 = re.sub(r'<!-- STATUS:BEGIN -->.*?<!-- STATUS:END -->', lambda m: '<!-- STATUS:BEGIN -->\n' + block + '\n<!-- STATUS:END -->', s, flags=re.S)
    open(p, 'w').write(s2)


if __name__ == '__main__':
    main()
