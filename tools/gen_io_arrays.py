#!/usr/bin/env python3
# generates /repo/io/zz_arrays_verif.go: byte-level contracts of the typed-array writers/readers (loops with invariants)
T=[('Short','int16',2,'d16(%s, %s)','%s'),('Int','int32',4,'d32(%s, %s)','%s'),('Long','int64',8,'d64(%s, %s)','%s'),
   ('Float','float32',4,'uint32(d32(%s, %s))','bits(%s)'),('Double','float64',8,'uint64(d64(%s, %s))','bits(%s)')]
o=[]
w=o.append
w('''//go:build verif

// Byte-level contracts of the typed-array writers and readers of package io (property C01; allocation budget: C04).
// Layout: a big-endian 16-bit count followed by the elements, each in its fixed-width big-endian form.
// The count field is a signed 16-bit value: arrays of up to 32767 elements round-trip.

package io
''')
for name,et,wd,dec,val in T:
    D='out.buffer.data'
    w(f'''//@ func DataOutputX.Write{name}Array
//@   prop C01
//@   arith int
//@   requires OutOK(out) && len(v) <= 32767
//@   ensures OutOK(out)
//@   ensures let w = old(out.buffer.wr) in out.buffer.wr == w + 2 + {wd} * len(v) && same(old(out.buffer.data), out.buffer.data, w) && int(d16(out.buffer.data, w)) == len(v)
//@   ensures let w = old(out.buffer.wr) in forall j int :: {{ v[j] }} 0 <= j && j < len(v) ==> {dec % (D, f'w + 2 + {wd} * j')} == {val % 'v[j]'}
//@   ensures emod(out.written - old(out.written) - (out.buffer.wr - old(out.buffer.wr)), 4294967296 * 4294967296) == 0
//@   modifies out.written, out.buffer.data, out.buffer.wr
//@   loop 1 invariant 0 <= i && i <= sz && sz == len(v) && v != nil && OutOK(out) && (emod(out.written - old(out.written) - (out.buffer.wr - old(out.buffer.wr)), 4294967296 * 4294967296) == 0)
//@   loop 1 invariant out.buffer.wr == old(out.buffer.wr) + 2 + {wd} * i && same(old(out.buffer.data), out.buffer.data, old(out.buffer.wr)) && int(d16(out.buffer.data, old(out.buffer.wr))) == len(v)
//@   loop 1 invariant forall j int :: {{ v[j] }} 0 <= j && j < i ==> {dec % (D, f'old(out.buffer.wr) + 2 + {wd} * j')} == {val % 'v[j]'}
//@   loop 1 decreases sz - i
//@   nopanic
''')
    DI='in.buffer.data'
    w(f'''//@ func DataInputX.Read{name}Array
//@   prop C01 C04
//@   arith int
//@   requires InOK(in)
//@   ensures InOK(in)
//@   ensures let p = old(in.buffer.rd) in let n = int(d16(in.buffer.data, p)) in 0 <= n && len(result) == n && result != nil && in.buffer.rd == p + 2 + {wd} * n
//@   ensures let p = old(in.buffer.rd) in forall j int :: {{ result[j] }} 0 <= j && j < len(result) ==> {val % 'result[j]'} == {dec % (DI, f'p + 2 + {wd} * j')}
//@   modifies in.offset, in.buffer.rd
//@   allocbound 262136 + 0 * in.buffer.wr
//@   loop 1 invariant 0 <= i && i <= sz && sz == int(d16(in.buffer.data, old(in.buffer.rd))) && len(v) == sz && v != nil && fresh(v.arr) && InOK(in)
//@   loop 1 invariant in.buffer.rd == old(in.buffer.rd) + 2 + {wd} * i
//@   loop 1 invariant forall j int :: {{ v[j] }} 0 <= j && j < i ==> {val % 'v[j]'} == {dec % (DI, f'old(in.buffer.rd) + 2 + {wd} * j')}
//@   loop 1 decreases sz - i
''')
w('''// The decimal arrays take their count from a decimal: the allocation is bounded by the bytes that remain in the input.
//@ func DataInputX.ReadDecimalArray
//@   prop C04
//@   arith int
//@   requires InOK(in)
//@   ensures InOK(in) && len(result) <= old(in.buffer.wr) - old(in.buffer.rd)
//@   modifies in.offset, in.buffer.rd
//@   allocbound 8 * (in.buffer.wr - in.buffer.rd)
//@   loop 1 invariant InOK(in) && 0 <= i && len(data) == sz && sz <= old(in.buffer.wr) - old(in.buffer.rd) && data != nil
//@   loop 1 decreases sz - i

//@ func DataInputX.ReadDecimalArrayInt
//@   prop C04
//@   arith int
//@   requires InOK(in)
//@   ensures InOK(in) && len(result) <= old(in.buffer.wr) - old(in.buffer.rd)
//@   modifies in.offset, in.buffer.rd
//@   allocbound 4 * (in.buffer.wr - in.buffer.rd)
//@   loop 1 invariant InOK(in) && 0 <= i && len(data) == sz && sz <= old(in.buffer.wr) - old(in.buffer.rd) && data != nil
//@   loop 1 decreases sz - i
''')
open('/repo/io/zz_arrays_verif.go','w').write('\n'.join(o))
