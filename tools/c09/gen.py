#!/usr/bin/env python3
"""Generator of /repo/util/hmap/zz_linked_verif.go (property C09).

The contracts of IntKeyLinkedMap were developed and verified by hand; ikl_template.txt is that text with the type-specific
names replaced by tokens (@T@ map type, @E@ entry type, @P@ spec-name prefix, @K@ key type, @NX@ bucket-chain field,
@EN@ enumerator type, @SRT@ sortable type).  This script instantiates the template for the 13 linked types, applying the
per-type differences described in TYPES below (value kind, presence of the keyHash field, hash function, none value,
constructor and enumerator shapes, which methods exist).  Per-type blocks that have no counterpart in IntKeyLinkedMap
(constructors, enumerators, KeyArray, ToString, Sort, Add...) come from custom_*.txt / the CUSTOM table.

usage:  python3 gen.py [-o OUT] [Type ...]      (default: all types, OUT = /repo/util/hmap/zz_linked_verif.go)
"""
import re, sys, os
sys.path.insert(0, os.path.dirname(os.path.abspath(__file__)))
import custom

HERE = os.path.dirname(os.path.abspath(__file__))
TEMPLATE = open(os.path.join(HERE, 'ikl_template.txt')).read()
SRC = '/repo/util/hmap/'


def blocks(text):
    res = {}
    order = []
    for para in text.split('\n\n'):
        key = None
        for l in para.split('\n'):
            m = re.match(r'//@ (extend extern|func|pred|ghost|spec opaque fn|spec fn|lemma) ([^\s(:]+)', l)
            if m:
                key = m.group(1).split()[0] + ' ' + m.group(2)
                break
        if key is None:
            key = 'text%d' % len(order)
        while key in res:
            key += "'"
        res[key] = para
        order.append(key)
    return res, order


BLK, ORDER = blocks(TEMPLATE)
DIRECTIVES = '''// Sort calls sort.Sort, whose assumed contract is declared in util/list and mentions that package's sortable types
//@ alsoload ./util/list

// These contracts are used at call sites inside package hmap only. The codec and equality layers (lang/value, lang/pack, ...)
// keep seeing the linked maps through their own trusted dictionary model (extern@hmapv blocks in lang/value): the two ghost
// vocabularies are different, and connecting them is future work.
//@ private'''
SHARED = ['spec LNKidx', 'lemma LNKidx_range']      # emitted once, before the first type


def inst(text, c):
    t = text
    for k in ('T', 'E', 'P', 'K', 'NX', 'EN', 'SRT'):
        t = t.replace('@%s@' % k, c.get(k, '@%s@' % k))
    return t


def go_funcs(tname, files):
    """names of the functions/methods declared in the given source files: {'T.m', 'f'}"""
    out = set()
    for f in files:
        src = open(SRC + f).read()
        for m in re.finditer(r'^func (\(\w+ \*?(\w+)\) )?(\w+)\(', src, re.M):
            out.add((m.group(2) + '.' if m.group(2) else '') + m.group(3))
    return out


# ---------------------------------------------------------------------------------------------------------------------
# per-type description
#  V      value kind: 'iface' | 'int32' | 'int64' | 'float32' | None (set)
#  KH     the entry stores keyHash
#  HASH   body of the hash spec function over k (None: uninterpreted; the hash method's contract is then `trusted`)
#  NEWRES what put returns for a new key in the code (spec expr over `result`), ABSENT what Get/remove return for an absent key
#  files  source files of the type
# ---------------------------------------------------------------------------------------------------------------------
TYPES = {}
# string keys are hashed by hash.HashStr (CRC-32, verified under C15): the spec function repeats the callee's postcondition
CRC = 'uint(int32(^hash.crc32fold(k, len(k))))'


def T(name, **kw):
    kw['T'] = name
    kw.setdefault('files', [name + '.go', kw['E'] + '.go'])
    TYPES[name] = kw


T('IntKeyLinkedMap', E='IntKeyLinkedEntry', P='IKL', K='int32', NX='next', EN='IntKeyLinkedEnumer', SRT='IntKeySortable',
  V='iface', KH=True, HASH='uint(k & 2147483647)', style='ikl')
T('LongKeyLinkedMap', E='LongKeyLinkedEntry', P='LKL', K='int64', NX='hash_next', EN='LongKeyEnumerImpl', SRT='LongKeySortable',
  V='iface', KH=True, HASH='uint(k ^ k>>32)', style='std')
T('StringKeyLinkedMap', E='StringKeyLinkedEntry', P='SKL', K='string', NX='hash_next', EN='StringKeyEnumerImpl', SRT='StringKeySortable',
  V='iface', KH=True, HASH=CRC, style='std')
T('IntIntLinkedMap', E='IntIntLinkedEntry', P='IIL', K='int32', NX='hash_next', EN='IntIntEnumer', SRT='intIntSortable',
  V='int32', KH=False, HASH='uint(k)', style='std')
T('IntFloatLinkedMap', E='IntFloatLinkedEntry', P='IFL', K='int32', NX='hash_next', EN='Enumer', SRT='intFloatSortable',
  V='float32', KH=False, HASH='uint(k)', style='std')
T('LongFloatLinkedMap', E='LongFloatLinkedEntry', P='LFL', K='int64', NX='hash_next', EN='LongFloatEnumerImpl', SRT='longFloatSortable',
  V='float32', KH=False, HASH='uint(k)', style='std')
T('LongLongLinkedMap', E='LongLongLinkedEntry', P='LLL', K='int64', NX='hash_next', EN='LongLongLinkedEnumer', SRT='longLongSortable',
  V='int64', KH=False, HASH='uint(k)', style='std', INCLUDE=('func New@T@', 'func New@T@Default', 'func New@E@'))
T('StringIntLinkedMap', E='StringIntLinkedEntry', P='SIL', K='string', NX='hash_next', EN='StringIntLinkedEnumer', SRT='StringIntSortable',
  V='int32', KH=True, HASH=CRC, style='std', EMPTYKEY=True,
  BOXRES=('func @T@.remove', 'func @T@.Remove', 'func @T@.RemoveFirst', 'func @T@.RemoveLast', 'func @T@.GetFirstValue', 'func @T@.GetLastValue'))
T('StringLongLinkedMap', E='StringLongLinkedEntry', P='SLL', K='string', NX='hash_next', EN='StringLongLinkedEnumer', SRT='StringLongSortable',
  V='int64', KH=True, HASH=CRC, style='std', EMPTYKEY=True,
  BOXRES=('func @T@.remove', 'func @T@.Remove', 'func @T@.RemoveFirst', 'func @T@.RemoveLast', 'func @T@.GetFirstValue', 'func @T@.GetLastValue'))
T('IntLinkedSet', E='IntLinkedSetry', P='ILS', K='int32', NX='hash_next', EN='IntEnumerSetImpl', SRT='setIntSortable',
  V=None, KH=False, HASH='uint(k)', style='std', PUTKH=True)
T('StringLinkedSet', E='StringLinkedSetry', P='SLS', K='string', NX='hash_next', EN='StringEnumerSetImpl', SRT='StringLinkedSortable',
  V=None, KH=False, HASH='uint(stringutil.jhash(k, len(k)))', style='std', PUTKH=True)

T('LinkedMap', E='LinkedEntry', P='LKM', K='mathint', NX='hash_next', EN='EnumerImpl', SRT='mapSortable',
  V='iface', KH=True, HASH=None, style='abs')
T('LinkedSet', E='LinkedSetry', P='LKS', K='mathint', NX='hash_next', EN='EnumerSetImpl', SRT='setSortable',
  V=None, KH=True, HASH=None, style='abs')

# blocks instantiated for the two types whose keys are LinkedKey values (user-defined Hash/Equals): order-list layer only
ABS = ['ghost @T@.ord', 'pred @P@n', 'func @T@.unchain', 'func @T@.chain', 'func @T@.Size', 'func @T@.IsEmpty', 'func @T@.IsFull',
       'func @T@.SetMax', 'func @T@.GetFirstKey', 'func @T@.GetLastKey', 'func @T@.GetFirstValue', 'func @T@.GetLastValue',
       'func @SRT@.Len', 'func @SRT@.Swap', 'func @E@.GetKey', 'func @E@.GetValue', 'func @E@.SetValue']

# core blocks shared by every type (instantiated from the IntKeyLinkedMap template, then patched)
CORE = ['ghost @T@.ord', 'pred @P@live', 'func @T@.unchain', 'func @T@.chain', 'ghost @T@.bh', 'spec @P@hash',
        'pred @P@bkt', 'func @T@.hash', 'func @T@.Get', 'pred @P@kb', 'func @T@.remove', 'pred @P@hh', 'pred @P@mv1',
        'func @T@.rehash', 'pred @P@nb', 'func @T@.put', 'func @T@.Size', 'func @T@.IsEmpty', 'func @T@.IsFull',
        'func @T@.SetMax', 'func @T@.ContainsKey', 'func @T@.GetFirstKey', 'func @T@.GetLastKey', 'func @T@.GetFirstValue',
        'func @T@.GetLastValue', 'func @T@.Put', 'func @T@.PutLast', 'func @T@.PutFirst', 'func @T@.Remove',
        'func @T@.RemoveFirst', 'func @T@.RemoveLast', 'func @T@.clear', 'func @T@.Clear',
        'func @SRT@.Len', 'func @SRT@.Swap', 'func @SRT@.Less', 'func @E@.GetKey', 'func @E@.GetValue', 'func @E@.SetValue',
        'func @E@.Equals', 'func @E@.HashCode', 'func @E@.ToString']
# blocks that exist only for IntKeyLinkedMap (style 'ikl')
IKL_ONLY = ['func New@T@', 'func New@T@Default', 'func @T@.overflowed', 'func @T@.ContainsValue', 'func @T@.GetLRU',
            'func New@EN@', 'func @T@.Keys', 'func @T@.Values', 'func @T@.ValueIterator', 'func @T@.Entries',
            'func @EN@.HasMoreElements', 'func @EN@.HasNext', 'func @EN@.NextInt', 'func @EN@.NextElement', 'func @EN@.Next',
            'func @EN@.Remove', 'func @T@.KeyArray', 'func @T@.ToString', 'func @T@.ToFormatString', 'func @T@.ToKeySet',
            'func New@E@', 'extend sort.Sort', 'func @T@.Sort']


def veq(c, a, b):
    """equality of two values of the value kind (floats are compared by bit pattern)"""
    if c['V'] == 'float32':
        return 'bits(%s) == bits(%s)' % (a, b)
    return '%s == %s' % (a, b)


def patch(key, text, c):
    """type-specific rewriting of an instantiated template block"""
    P, Tn, E = c['P'], c['T'], c['E']
    t = text
    if c['style'] == 'abs':
        # only the order list is modelled for these types: the representation predicate is seq + lnk + count
        t = '\n'.join(l for l in t.split('\n') if not re.match(r'//@   requires %s(tab0|tab1|cel0|cel1|ent0a|ent0b|ent0c|ent1|inl)\(this\)$' % P, l))
    if key == 'spec @P@hash':
        if c['HASH'] is None:
            return '// the hash of a %s key is computed by another package; it is used only through "equal keys have equal hashes"\n//@ spec fn %shash(k %s) uint' % (c['K'], P, c['K'])
        return '//@ spec opaque fn %shash(k %s) uint = %s' % (P, c['K'], c['HASH'])
    if key == 'func @T@.hash' and c['HASH'] is None:
        t = t.replace('//@   pure', '//@   trusted     -- ASSUMED: the hash is a function of the key (determinism of the external hash routine)\n//@   pure')
    if c.get('HASH') and 'crc32fold' in c['HASH'] and key.startswith('func ') and key != 'func @T@.hash':
        t = t.replace('//@   arith int\n', '//@   arith int\n//@   opaque %shash hash.crc32fold\n' % P, 1)
    if c.get('HASH') and 'jhash' in c['HASH'] and key.startswith('func ') and key != 'func @T@.hash':
        t = t.replace('//@   arith int\n', '//@   arith int\n//@   opaque %shash stringutil.jhash\n' % P, 1)
    if key in ('func @T@.GetFirstValue', 'func @T@.GetLastValue') and key in c.get('BOXRES', ()):
        # these two return the none value on an empty map (they test IsEmpty first)
        t = t.replace('result == this.header.value', 'result == nil')
    # ---- entries without a stored hash: the bucket is recomputed from the key
    if not c['KH']:
        t = t.replace('e.keyHash == %shash(e.key) && 0 <= e.keyHash && e.keyHash <= 18446744073709551615' % P,
                      '0 <= %shash(e.key) && %shash(e.key) <= 18446744073709551615' % (P, P))
        t = re.sub(r'LNKidx\((\w+(?:\.cell\[b\]\[h\])?)\.keyHash, ', lambda m: 'LNKidx(%shash(%s.key), ' % (P, m.group(1)), t)
        if not c.get('PUTKH'):
            t = t.replace(' && keyHash == %shash(key)' % P, '')
    if c.get('EMPTYKEY') and key == 'pred @P@bkt':
        # the empty string is never stored (put ignores it)
        t = t.replace('bool = len(m.table) > 0 && allocated(m.table.arr) && ', 'bool = len(m.table) > 0 && allocated(m.table.arr) && m.ent[""] == nil && ')
    if c.get('EMPTYKEY') and key == 'func @T@.put':
        # put has an extra first return (the empty key is ignored): the insertion is the third return statement
        t = t.replace('//@   set@2 ', '//@   set@3 ')
        t = t.replace('//@   ensures old(this.ent[key]) == nil ==> 0 <= %snb(this, key)' % P, '//@   ensures old(this.ent[key]) == nil && key != "" ==> 0 <= %snb(this, key)' % P)
        t = t.replace('//@ func %s.put\n' % Tn, '// KNOWN FINDING (not repaired): put ignores the empty-string key -- it returns the none value and stores nothing, so the\n// clause `this.ent[key] != nil` fails at that return; all other clauses hold there.\n//@ func %s.put\n' % Tn)
    # ---- entry Equals of the scalar-valued maps compares key and value
    if key == 'func @E@.Equals' and c['V'] in ('int32', 'int64') and c['K'] != 'string':
        t = t.replace('result == (this.key == o.key)', 'result == (this.key == o.key && this.value == o.value)')
    if key == 'func @E@.Equals' and c['V'] == 'float32':
        t = t.replace('//@   ensures result == (this.key == o.key)\n', '')
    # ---- value kinds: how results / stored values are compared
    V = c['V']
    K = c['K']

    def boxedkey(res, keyexpr):
        if K == 'string':
            return 'istype(%s, "string") && unbox(%s, "string") == %s' % (res, res, keyexpr)
        return 'istype(%s, "%s") && unboxint(%s) == %s' % (res, K, res, keyexpr)

    def resval(m):
        ent = m.group(1)          # e.g. old(this.ent[key].value) / this.ord[0].value
        if V is None:
            return boxedkey('result', ent.replace('.value', '.key'))
        if V == 'float32':
            return 'bits(result) == bits(%s)' % ent
        return 'result == ' + ent
    t = re.sub(r'result == ((?:old\()?this\.(?:ent\[key\]|ord\[[^\]]*\]|header)\.value\)?)', resval, t)
    if V is None:
        t = t.replace('this.ent[key] != nil && this.ent[key].value == value', 'this.ent[key] != nil')
        t = t.replace('//@   ensures this.ent[key].value == value\n', '')
    elif V == 'float32':
        t = t.replace('this.ent[key].value == value', 'bits(this.ent[key].value) == bits(value)')
        t = t.replace('result == this.value', 'bits(result) == bits(this.value)').replace('result == old(this.value) && this.value == v', 'bits(result) == bits(old(this.value)) && bits(this.value) == bits(v)')
    if key in c.get('BOXRES', ()):
        # this method returns the scalar value boxed in an interface{}
        def boxed(m):
            return 'istype(result, "%s") && unboxint(result) == %s' % (V, m.group(1))
        t = re.sub(r'result == ((?:old\()?this\.(?:ent\[key\]|ord\[[^\]]*\]|header)\.value\)?)', boxed, t)
        t = re.sub(r'result == nil\b', 'istype(result, "%s") && unboxint(result) == this.NONE' % V, t)
    if V in ('int32', 'int64', 'float32') and not key.startswith('func New'):
        none = 'this.NONE' if V != 'float32' else 'this.NONE'
        if V == 'float32':
            t = re.sub(r'result == nil\b', 'bits(result) == bits(this.NONE)', t)
        else:
            t = re.sub(r'result == nil\b', 'result == this.NONE', t)
    if V != 'iface':
        # the interface value frame is stated per component (.typ/.val); scalar values need one quantifier only
        def one(m):
            cond = m.group(1)
            if V is None:
                return 'true'
            if V == 'float32':
                return '(forall x *%s :: { x.value } %s ==> bits(x.value) == bits(old(x.value)))' % (E, cond)
            return '(forall x *%s :: { x.value } %s ==> x.value == old(x.value))' % (E, cond)
        t = re.sub(r'\(forall x \*%s :: \{ x\.value\.typ \} (.*?) ==> x\.value\.typ == old\(x\.value\.typ\)\) && \(forall x \*%s :: \{ x\.value\.val \} .*? ==> x\.value\.val == old\(x\.value\.val\)\)' % (E, E), one, t)
        if V is None:
            t = t.replace(' && x.value == old(x.value)', '')
            t = t.replace(', %s.value' % E, '')
        elif V == 'float32':
            t = t.replace(' && x.value == old(x.value)', ' && bits(x.value) == bits(old(x.value))')
    return t


def generate(name, first):
    c = TYPES[name]
    have = go_funcs(name, c['files'])
    out = []
    if first:
        out.append(BLK[ORDER[0]])          # build tag
        out.append(BLK[ORDER[1]])          # package clause
        out.append(DIRECTIVES)
        for k in SHARED:
            out.append(BLK[k])
    out.append('// ' + '=' * 116 + '\n// ' + name + '\n// ' + '=' * 116)
    for key in ORDER[2:]:
        if key in SHARED:
            continue
        if key == 'func @T@.ContainsValue':
            continue                         # produced by custom.contains_value for every type that has it
        if c['style'] == 'abs' and key not in ABS:
            continue
        if c['style'] != 'ikl' and key in IKL_ONLY and key not in c.get('INCLUDE', ()):
            continue
        m = re.match(r'func (.*)', key)
        if m:
            fname = inst(m.group(1), c)
            if fname not in have:
                continue
        t = patch(key, inst(BLK[key], c), c)
        out.append(t)
    for blk in custom.blocks_for(name, c):
        t = inst(blk, c)
        if c.get('HASH') and '//@ func ' in t:
            # string keys: the hash definitions (CRC-32 / polynomial fold of another package) stay hidden in these units too
            if 'crc32fold' in c['HASH']:
                t = t.replace('//@   arith int\n', '//@   arith int\n//@   opaque %shash hash.crc32fold\n' % c['P'], 1)
            elif 'jhash' in c['HASH']:
                t = t.replace('//@   arith int\n', '//@   arith int\n//@   opaque %shash stringutil.jhash\n' % c['P'], 1)
        m = re.search(r'^//@ func (\S+)', t, re.M)
        if m and m.group(1) not in have:
            continue
        out.append(t)
    return '\n\n'.join(out)


if __name__ == '__main__':
    args = sys.argv[1:]
    outp = '/repo/util/hmap/zz_linked_verif.go'
    if args[:1] == ['-o']:
        outp = args[1]
        args = args[2:]
    names = args or list(TYPES)
    parts = [generate(n, i == 0) for i, n in enumerate(names)]
    open(outp, 'w').write('\n\n'.join(parts) + '\n')
    print('wrote', outp, 'for', ', '.join(names))
