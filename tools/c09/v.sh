#!/bin/bash
# usage: v.sh <unit,unit,...|""> [timeout] [top]   -- verify C09 units of /repo/util/hmap with the installed engine
cd /verif
F=""; [ -n "$1" ] && F="-f $1"
bin/govc verify -root /repo -pkgs ./util/hmap,./util/list -p C09 $F -t ${2:-10} -v -times 2>&1 | cut -c1-260 > /tmp/ag_c09hmap/last.out
grep -v "SPEC-ERROR\|   ok\|goal:\|file:\|assume\|model" /tmp/ag_c09hmap/last.out | grep -v '^ *(\|^ *)\|^$\|define-fun\|^    \|^"\|^ *;;'
echo "--- slowest:"
grep "   ok" /tmp/ag_c09hmap/last.out | awk '{t=$5; sub("s","",t); print t, $4, $2}' | sort -n -r | head -${3:-5}
