"""Per-type blocks that have no counterpart in the IntKeyLinkedMap template: constructors, enumerators, Keys/Values/Entries,
KeyArray, ToString, Sort and a few extras.  Everything is produced from the small descriptions in DESC; tokens @T@ @E@ @P@
@K@ @NX@ @EN@ @SRT@ are substituted by gen.py afterwards."""

HDR = '//@   prop C09\n//@   arith int\n'
OKR = '@P@seq(result) && @P@lnkn(result) && @P@lnkp(result) && @P@tab0(result) && @P@tab1(result) && @P@cel0(result) && @P@cel1(result) && @P@ent0a(result) && @P@ent0b(result) && @P@ent0c(result) && @P@ent1(result) && @P@inl(result) && result.count == @P@n(result)'
OKT = '@P@seq(this) && @P@lnkn(this) && @P@lnkp(this) && @P@tab0(this) && @P@tab1(this) && @P@cel0(this) && @P@cel1(this) && @P@ent0a(this) && @P@ent0b(this) && @P@ent0c(this) && @P@ent1(this) && @P@inl(this) && this.count == @P@n(this)'
MORE = 'this.entry != nil && this.parent.header != this.entry'


def ctor_default(name):
    return ('// %s: capacity 101, load factor 0.75, empty\n' % name +
            '//@ func %s\n' % name + HDR + '//@   absrem\n'
            '//@   set result.ord := result.ord[-1 := result.header][0 := result.header]\n'
            '//@   ensures result != nil && fresh(result) && @P@ok(result) && @P@n(result) == 0 && result.max == 0 && len(result.table) == 101 && !held(result.lock)\n'
            '//@   ensures forall q @K@ :: { result.ent[q] } result.ent[q] == nil\n'
            '//@   nopanic')


def ctor_plain(name):
    return ('// %s(initCapacity, loadFactor): capacity 0 is replaced by 1; nothing else is checked (a negative capacity panics in make)\n' % name +
            '//@ func %s\n' % name + HDR + '//@   absrem\n'
            '//@   set result.ord := result.ord[-1 := result.header][0 := result.header]\n'
            '//@   ensures result != nil && fresh(result) && @P@n(result) == 0 && result.max == 0 && len(result.table) == ite(initCapacity == 0, 1, initCapacity) && !held(result.lock)\n'
            '//@   ensures ' + OKR + '\n'
            '//@   ensures forall q @K@ :: { result.ent[q] } result.ent[q] == nil\n'
            '//@   nopanic if 0 <= initCapacity')


def has_more(EN):
    return ('//@ func %s.HasMoreElements\n' % EN + HDR +
            '//@   requires this.parent != nil\n'
            '//@   ensures result == (%s)\n' % MORE +
            '//@   pure\n//@   nopanic')


def nxt(EN, meth, res, exh, cmp='=='):
    """NextX: the element under the cursor, cursor advanced; at the end `exh` and nothing moves"""
    def eq(a, b):
        return ('bits(%s) == bits(%s)' % (a, b)) if cmp == 'bits' else '%s == %s' % (a, b)
    return ('//@ func %s.%s\n' % (EN, meth) + HDR +
            '//@   requires this.parent != nil\n'
            '//@   ensures old(%s) ==> %s && this.entry == old(this.entry.link_next)\n' % (MORE, eq('result', res)) +
            '//@   ensures !old(%s) ==> %s && this.entry == old(this.entry)\n' % (MORE, eq('result', exh)) +
            '//@   modifies this.entry\n//@   nopanic')


def next_element(EN, cases, exh):
    """NextElement: cases = list of (condition or None, spec of result)"""
    t = '//@ func %s.NextElement\n' % EN + HDR + '//@   requires this.parent != nil\n'
    t += '//@   ensures old(%s) ==> this.entry == old(this.entry.link_next)\n' % MORE
    for cond, spec in cases:
        g = 'old(%s)' % MORE + (' && ' + cond if cond else '')
        t += '//@   ensures %s ==> %s\n' % (g, spec)
    t += '//@   ensures !old(%s) ==> %s && this.entry == old(this.entry)\n' % (MORE, exh)
    t += '//@   modifies this.entry\n//@   nopanic'
    return t


ENTRY = 'istype(result, "*hmap.@E@") && ptrof(result, "*hmap.@E@") == old(this.entry)'


def boxed(kind, expr):
    if kind == 'string':
        return 'istype(result, "string") && unbox(result, "string") == ' + expr
    if kind == 'float32':
        return 'istype(result, "float32")'
    return 'istype(result, "%s") && unboxint(result) == %s' % (kind, expr)


def starter(meth, EN, fields, lock):
    """Keys/Values/Entries: a fresh enumerator positioned on the first entry"""
    p = 'ptrof(result, "*hmap.%s")' % EN
    t = '//@ func @T@.%s\n' % meth + HDR
    t += '//@   requires @P@ok(this)' + (' && !held(this.lock)' if lock else '') + '\n'
    t += '//@   ensures istype(result, "*hmap.%s") && %s != nil && fresh(%s)' % (EN, p, p) + (' && !held(this.lock)' if lock else '') + '\n'
    t += '//@   ensures %s.parent == this && %s.entry == this.ord[this.lo]' % (p, p)
    for f, v in fields.items():
        t += ' && %s.%s == %s' % (p, f, v)
    t += '\n//@   nopanic'
    return t


def key_array(name, EN, locked):
    p = 'ptrof(en, "*hmap.%s")' % EN
    h = 'held(this.lock)' if locked else '!held(this.lock)'
    return ('// %s: the keys in list order\n' % name +
            '//@ func @T@.%s\n' % name + HDR +
            '//@   requires @P@ok(this) && !held(this.lock)\n'
            '//@   ensures len(result) == @P@n(this) && fresh(result.arr) && !held(this.lock)\n'
            '//@   ensures forall i int :: { result[i] } 0 <= i && i < @P@n(this) ==> result[i] == this.ord[this.lo + i].key\n'
            '//@   loop 1 invariant 0 <= i && i <= len(_keys) && len(_keys) == @P@n(this) && fresh(_keys.arr) && _keys.off == 0 && %s\n' % h +
            '//@   loop 1 invariant istype(en, "*hmap.%s") && %s != nil && fresh(%s) && %s.parent == this && %s.entry == this.ord[this.lo + i]\n' % (EN, p, p, p, p) +
            '//@   loop 1 invariant forall j int :: { _keys[j] } 0 <= j && j < i ==> _keys[j] == this.ord[this.lo + j].key\n'
            '//@   loop 1 decreases len(_keys) - i\n'
            '//@   nopanic')


def to_string(EN, var, extra):
    p = 'ptrof(%s, "*hmap.%s")' % (var, EN)
    return ('// ToString walks the list with an enumerator (the text itself is produced by fmt / bytes.Buffer and is not specified)\n'
            '//@ func @T@.ToString\n' + HDR +
            '//@   requires @P@ok(this) && !held(this.lock)\n'
            '//@   ensures !held(this.lock)\n'
            '//@   loop 1 invariant istype(%s, "*hmap.%s") && %s != nil && %s.parent == this%s && held(this.lock)\n' % (var, EN, p, p, extra) +
            '//@   nopanic')


def sort_entries(EN, extra, lst='list', en_iface=True):
    """Sort of the maps: entries collected, sort.Sort, clear, put back"""
    p = ('ptrof(en, "*hmap.%s")' % EN) if en_iface else 'en'
    ty = ('istype(en, "*hmap.%s") && ' % EN) if en_iface else ''
    L = lst
    return ('// sort.Sort only permutes the slice it is given (assumed, as in package list: sortperm is the permutation applied)\n'
            '//@ extend extern sort.Sort(data)\n'
            '//@   ensures istype(data, "hmap.@SRT@") ==> (let s = ptrof(data, "*hmap.@SRT@").data in let a1 = arrayof(s) in let a0 = old(arrayof(s)) in permOf(sortperm, sortinv, len(s)) && (forall j int :: { a1[j] } s.off <= j && j < s.off + len(s) ==> a1[j] == a0[s.off + sortperm[j - s.off]]))\n'
            '//@   modifies ptrof(data, "*hmap.@SRT@").data[:]\n\n'
            '// Sort: the entries are collected in list order, the slice is handed to sort.Sort, the map is cleared and the entries\n'
            '// are put back (PUT_LAST) in slice order.  Proved: no panic, the slice holds the window before sorting, the representation\n'
            '// invariant afterwards.  (That the final order is the comparator\'s order depends on sort.Sort and is not derived.)\n'
            '//@ func @T@.Sort\n' + HDR + '//@   absrem\n'
            '//@   requires @P@ok(this) && !held(this.lock) && @P@n(this) < 576460752303423488\n'
            '//@   ensures ' + OKT + ' && !held(this.lock) && @P@n(this) <= old(@P@n(this))\n'
            '//@   modifies this.ord, this.pos, this.lo, this.hi, this.ent, this.in, this.bh, this.cell, this.blen, this.count, this.table, this.threshold, this.table[:], @E@.@NX@, @E@.value, @E@.link_next, @E@.link_prev\n'
            '//@   loop 1 invariant 0 <= i && i <= sz && sz == @P@n(this) && len(%s) == sz && fresh(%s.arr) && %s.off == 0 && held(this.lock) && ' % (L, L, L) + OKT + '\n'
            '//@   loop 1 invariant %s%s != nil && fresh(%s) && %s.parent == this%s && %s.entry == this.ord[this.lo + i]\n' % (ty, p, p, p, extra, p) +
            '//@   loop 1 invariant forall j int :: { %s[j] } 0 <= j && j < i ==> %s[j] == this.ord[this.lo + j]\n' % (L, L) +
            '//@   loop 1 invariant forall j int :: { arrayof(%s)[j] } 0 <= j && j < i ==> arrayof(%s)[j] != nil\n' % (L, L) +
            '//@   loop 1 decreases sz - i\n'
            '//@   loop 2 invariant 0 <= i#2 && i#2 <= sz && sz == old(@P@n(this)) && len(%s) == sz && held(this.lock) && @P@n(this) <= i#2 && ' % L + OKT + '\n'
            '//@   loop 2 invariant %s.arr != this.table.arr && allocated(%s.arr) && %s.off == 0\n' % (L, L, L) +
            '//@   loop 2 invariant forall j int :: { arrayof(%s)[j] } 0 <= j && j < sz ==> arrayof(%s)[j] != nil\n' % (L, L) +
            '//@   loop 2 decreases sz - i#2\n'
            '//@   nopanic')


def sort_keys(EN):
    """Sort of the sets with scalar keys: keys collected (not entries)"""
    p = 'ptrof(en, "*hmap.%s")' % EN
    return ('//@ extend extern sort.Sort(data)\n'
            '//@   ensures istype(data, "hmap.@SRT@") ==> (let s = ptrof(data, "*hmap.@SRT@").data in let a1 = arrayof(s) in let a0 = old(arrayof(s)) in permOf(sortperm, sortinv, len(s)) && (forall j int :: { a1[j] } s.off <= j && j < s.off + len(s) ==> a1[j] == a0[s.off + sortperm[j - s.off]]))\n'
            '//@   modifies ptrof(data, "*hmap.@SRT@").data[:]\n\n'
            '// Sort: the keys are collected in list order, sorted by sort.Sort, the set is cleared and the keys are put back in slice order\n'
            '//@ func @T@.Sort\n' + HDR + '//@   absrem\n'
            '//@   requires @P@ok(this) && !held(this.lock) && @P@n(this) < 576460752303423488\n'
            '//@   ensures ' + OKT + ' && !held(this.lock) && @P@n(this) <= old(@P@n(this))\n'
            '//@   modifies this.ord, this.pos, this.lo, this.hi, this.ent, this.in, this.bh, this.cell, this.blen, this.count, this.table, this.threshold, this.table[:], @E@.@NX@, @E@.link_next, @E@.link_prev\n'
            '//@   loop 1 invariant 0 <= i && i <= sz && sz == @P@n(this) && len(list) == sz && fresh(list.arr) && list.off == 0 && held(this.lock) && ' + OKT + '\n'
            '//@   loop 1 invariant istype(en, "*hmap.%s") && %s != nil && fresh(%s) && %s.parent == this && %s.entry == this.ord[this.lo + i]\n' % (EN, p, p, p, p) +
            '//@   loop 1 invariant forall j int :: { list[j] } 0 <= j && j < i ==> list[j] == this.ord[this.lo + j].key\n'
            '//@   loop 1 decreases sz - i\n'
            '//@   loop 2 invariant 0 <= i#2 && i#2 <= sz && sz == old(@P@n(this)) && len(list) == sz && held(this.lock) && @P@n(this) <= i#2 && ' + OKT + '\n'
            '//@   loop 2 decreases sz - i#2\n'
            '//@   nopanic')


def ctor_abs(name, default):
    LSTR = '@P@seq(result) && @P@lnkn(result) && @P@lnkp(result) && result.count == @P@n(result)'
    t = '//@ func %s\n' % name + HDR + '//@   set result.ord := result.ord[-1 := result.header][0 := result.header]\n'
    if default:
        t += '//@   ensures result != nil && fresh(result) && %s && @P@n(result) == 0 && result.max == 0 && len(result.table) == 101 && !held(result.lock)\n//@   nopanic' % LSTR
    else:
        t = '// %s(initCapacity, loadFactor): capacity 0 is replaced by 1; nothing else is checked\n' % name + t
        t += '//@   ensures result != nil && fresh(result) && %s && @P@n(result) == 0 && result.max == 0 && len(result.table) == ite(initCapacity == 0, 1, initCapacity) && !held(result.lock)\n' % LSTR
        t += '//@   nopanic if 0 <= initCapacity'
    return t


def to_string_abs(EN, extra):
    p = 'ptrof(x, "*hmap.%s")' % EN
    return ('//@ func @T@.ToString\n' + HDR +
            '//@   requires @P@seq(this)\n//@   requires @P@lnkn(this)\n//@   requires @P@lnkp(this)\n//@   requires this.count == @P@n(this) && !held(this.lock)\n'
            '//@   ensures !held(this.lock)\n'
            '//@   loop 1 invariant istype(x, "*hmap.%s") && %s != nil && %s.parent == this%s && held(this.lock)\n' % (EN, p, p, extra) +
            '//@   nopanic')


SORT_EXT = ('// sort.Sort only permutes the slice it is given (assumed, as in package list: sortperm is the permutation applied)\n'
            '//@ extend extern sort.Sort(data)\n'
            '//@   ensures istype(data, "hmap.@SRT@") ==> (let s = ptrof(data, "*hmap.@SRT@").data in let a1 = arrayof(s) in let a0 = old(arrayof(s)) in permOf(sortperm, sortinv, len(s)) && (forall j int :: { a1[j] } s.off <= j && j < s.off + len(s) ==> a1[j] == a0[s.off + sortperm[j - s.off]]))\n'
            '//@   modifies ptrof(data, "*hmap.@SRT@").data[:]\n\n')


def sort_abs(EN, extra):
    """Sort of LinkedMap / LinkedSet: the entries are collected in list order; clear and put are assumed frames (see above)"""
    if EN is None:
        cur = '//@   loop 1 invariant e == this.ord[this.lo + i]\n'
    else:
        p = 'ptrof(en, "*hmap.%s")' % EN
        cur = '//@   loop 1 invariant istype(en, "*hmap.%s") && %s != nil && fresh(%s) && %s.parent == this%s && %s.entry == this.ord[this.lo + i]\n' % (EN, p, p, p, extra, p)
    return (SORT_EXT +
            '// Sort: the entries are collected in list order (proved: the slice holds the window ord[lo..hi) before sort.Sort), then the\n'
            '// collection is cleared and refilled in slice order; clear / put of this type are assumed frames, so nothing is claimed\n'
            '// about the state afterwards.  No panic.\n'
            '//@ func @T@.Sort\n' + HDR +
            '//@   requires @P@seq(this)\n//@   requires @P@lnkn(this)\n//@   requires @P@lnkp(this)\n//@   requires this.count == @P@n(this) && !held(this.lock) && allocated(this.table.arr)\n'
            '//@   ensures !held(this.lock)\n'
            '//@   modifies *\n'
            '//@   loop 1 invariant 0 <= i && i <= sz && sz == @P@n(this) && len(list) == sz && fresh(list.arr) && list.off == 0 && held(this.lock) && this.table == old(this.table) && @P@seq(this) && @P@lnkn(this) && @P@lnkp(this)\n' + cur +
            '//@   loop 1 invariant forall j int :: { list[j] } 0 <= j && j < i ==> list[j] == this.ord[this.lo + j]\n'
            '//@   loop 1 invariant forall j int :: { arrayof(list)[j] } 0 <= j && j < i ==> arrayof(list)[j] != nil\n'
            '//@   loop 1 decreases sz - i\n'
            '//@   loop 2 invariant 0 <= i#2 && i#2 <= sz && len(list) == sz && held(this.lock) && list.off == 0 && list.arr != this.table.arr && allocated(list.arr)\n'
            '//@   loop 2 invariant forall j int :: { arrayof(list)[j] } 0 <= j && j < sz ==> arrayof(list)[j] != nil\n'
            '//@   loop 2 decreases sz - i#2\n'
            '//@   nopanic')


def placeholder(meth, params, res):
    # put / remove / clear of the abstract-key types: not specified.  ASSUMED: they touch only the map object, its bucket array and
    # the link fields of entries, and the bucket array stays the same or is replaced by a freshly allocated one (rehash).
    return ('//@ extern hmap.@T@.%s(%s)%s\n' % (meth, params, (' (%s)' % res) if res else '') +
            '//@   ensures this.table.arr == old(this.table.arr) || fresh(this.table.arr)\n'
            '//@   modifies all(this), this.table[:], @E@.@NX@, @E@.link_next, @E@.link_prev\n')


REQ_OK = ''.join('//@   requires %s\n' % p for p in ('@P@seq(this)', '@P@lnkn(this)', '@P@lnkp(this)', '@P@tab0(this)', '@P@tab1(this)',
                                                     '@P@cel0(this)', '@P@cel1(this)', '@P@ent0a(this)', '@P@ent0b(this)', '@P@ent0c(this)', '@P@ent1(this)', '@P@inl(this)',
                                                     'this.count == @P@n(this)'))


def contains_value(guard=''):
    """ContainsValue: every bucket from the last to the first, every chain from its head: true iff some stored entry has the value"""
    differs = '!(%s == value)'
    return ('// ContainsValue scans all buckets: the result says whether some stored entry carries the value\n'
            '//@ func @T@.ContainsValue\n' + HDR + '//@   absrem\n' + REQ_OK +
            '//@   requires !held(this.lock)\n'
            '//@   ensures !held(this.lock)\n'
            '//@   ensures result ==> (exists x *@E@ :: { this.in[x] } x != nil && this.in[x] && x.value == value)\n'
            '//@   ensures !result ==> (forall x *@E@ :: { this.in[x] } x != nil && this.in[x] ==> !(x.value == value))\n'
            '//@   loop 1 invariant tab == this.table && -1 <= i && i < len(tab) && held(this.lock)\n'
            '//@   loop 1 invariant forall x *@E@ :: { this.in[x] } x != nil && this.in[x] ==> 0 <= @P@bkt(this, x) && @P@bkt(this, x) < len(tab) && 0 <= this.bh[x] && this.bh[x] < this.blen[@P@bkt(this, x)] && this.cell[@P@bkt(this, x)][this.bh[x]] == x\n'
            '//@   loop 1 invariant forall b int, h int :: { this.cell[b][h] } i < b && b < len(tab) && 0 <= h && h < this.blen[b] ==> !(this.cell[b][h].value == value)\n'
            '//@   loop 1 decreases i + 1\n'
            '//@   loop 2 invariant 0 <= i && i < len(tab) && (e == nil || (this.in[e] && @P@bkt(this, e) == i && 0 <= this.bh[e] && this.bh[e] < this.blen[i] && this.cell[i][this.bh[e]] == e))\n'
            '//@   loop 2 invariant forall h int :: { this.cell[i][h] } ite(e == nil, -1, this.bh[e]) < h && h < this.blen[i] ==> !(this.cell[i][h].value == value)\n'
            '//@   loop 2 decreases ite(e == nil, 0, this.bh[e] + 1)\n'
            '//@   nopanic' + guard)


def simple(name, body):
    return '//@ func %s\n' % name + HDR + body


# ---------------------------------------------------------------------------------------------------------------------
def blocks_for(name, c):
    EN = c['EN']
    V = c['V']
    K = c['K']
    out = []
    vcmp = 'bits' if V == 'float32' else '=='
    if name == 'IntKeyLinkedMap':
        out += [contains_value(' if value != nil')]
    if name in ('LongKeyLinkedMap', 'StringKeyLinkedMap'):
        nm = 'NextLong' if K == 'int64' else 'NextString'
        exh = '0' if K == 'int64' else '""'
        if name == 'LongKeyLinkedMap':
            out += [ctor_default('New@T@Default'), ctor_plain('New@T@')]
        else:
            out += [ctor_default('New@T@')]
        out += [has_more(EN), nxt(EN, nm, 'old(this.entry.key)', exh),
                next_element(EN, [('this.isEntry', ENTRY), ('!this.isEntry', 'result == old(this.entry.value)')], 'istype(result, "string")'),
                starter('Keys', EN, {'isEntry': 'false'}, False), starter('Values', EN, {'isEntry': 'false'}, False),
                starter('Entries', EN, {'isEntry': 'true'}, False),
                key_array('KeyArray', EN, True), to_string(EN, 'x', ' && ptrof(x, "*hmap.%s").isEntry' % EN),
                sort_entries(EN, ' && ptrof(en, "*hmap.%s").isEntry' % EN)]
    elif name in ('IntIntLinkedMap', 'LongLongLinkedMap'):
        nm = 'NextInt' if K == 'int32' else 'NextLong'
        if name == 'IntIntLinkedMap':
            out += [ctor_default('New@T@')]
        out += [has_more(EN), nxt(EN, nm, 'ite(this.isKey, old(this.entry.key), old(this.entry.value))', '0'),
                next_element(EN, [(None, ENTRY)], 'result == nil'),
                starter('Keys', EN, {'isKey': 'true'}, False), starter('Values', EN, {'isKey': 'false'}, False),
                starter('Entries', EN, {}, False),
                key_array('KeyArray', EN, name == 'IntIntLinkedMap'), to_string(EN, 'x', ''), sort_entries(EN, ''), contains_value()]
    elif name in ('IntFloatLinkedMap', 'LongFloatLinkedMap'):
        nm = 'NextInt' if K == 'int32' else 'NextLong'
        out += [ctor_default('New@T@'), has_more(EN), nxt(EN, nm, 'old(this.entry.key)', '0'),
                nxt(EN, 'NextFloat', 'old(this.entry.value)', 'this.parent.NONE', 'bits'),
                next_element(EN, [(None, ENTRY)], 'result == nil'),
                starter('Keys', EN, {}, False), starter('Values', EN, {}, False), starter('Entries', EN, {}, False),
                key_array('KeyArray', EN, True), to_string(EN, 'x', ''), sort_entries(EN, ''), contains_value()]
    elif name in ('StringIntLinkedMap', 'StringLongLinkedMap'):
        vn = 'NextInt' if V == 'int32' else 'NextLong'
        out += [ctor_default('New@T@'), has_more(EN), nxt(EN, vn, 'old(this.entry.value)', '0'), nxt(EN, 'NextString', 'old(this.entry.key)', '""'),
                next_element(EN, [('this.Type == 1', boxed('string', 'old(this.entry.key)')), ('this.Type == 2', boxed(V, 'old(this.entry.value)')),
                                  ('this.Type != 1 && this.Type != 2', ENTRY)], 'result == nil'),
                simple('New@EN@', '//@   ensures result != nil && fresh(result) && result.parent == parent && result.entry == entry && result.Type == Type && !result.isEntry\n//@   nopanic'),
                starter('Keys', EN, {'Type': '0', 'isEntry': 'false'}, False), starter('Values', EN, {'Type': '2', 'isEntry': 'false'}, False),
                starter('Entries', EN, {'Type': '0', 'isEntry': 'true'}, False),
                key_array('KeyArray', EN, True), to_string(EN, 'x', ' && ptrof(x, "*hmap.%s").Type == 0' % EN),
                sort_entries(EN, ' && ptrof(en, "*hmap.%s").Type == 0' % EN), contains_value()]
    elif name in ('LinkedMap', 'LinkedSet'):
        LST = '//@   requires @P@seq(this)\n//@   requires @P@lnkn(this)\n//@   requires @P@lnkp(this)\n//@   requires this.count == @P@n(this)\n'
        p = 'ptrof(result, "*hmap.%s")' % EN

        def st(meth, rt):
            return ('//@ func @T@.%s\n' % meth + HDR + LST +
                    '//@   ensures istype(result, "*hmap.%s") && %s != nil && fresh(%s) && %s.parent == this && %s.entry == this.ord[this.lo] && %s.rtype == %s\n' % (EN, p, p, p, p, p, rt) +
                    '//@   nopanic')
        hdr = ('// Keys are LinkedKey values with user-defined Hash/Equals: only the ORDER LIST of this type is modelled (representation\n'
               '// predicate: @P@seq + @P@lnk + count).  put / remove / rehash / Get / ContainsKey (bucket structure, dictionary model)\n'
               '// are NOT under contract; callers see them as arbitrary state changes.')
        if name == 'LinkedMap':
            out += [hdr, ctor_abs('New@T@Default', True), ctor_abs('New@T@', False), has_more(EN),
                    next_element(EN, [('this.rtype == 1', 'result == old(this.entry.key)'), ('this.rtype == 2', 'result == old(this.entry.value)'),
                                      ('this.rtype == 3', ENTRY), ('this.rtype != 1 && this.rtype != 2 && this.rtype != 3', 'istype(result, "string")')], 'istype(result, "string")'),
                    st('Keys', '1'), st('Values', '2'), st('Entries', '3'),
                    placeholder('put', 'this, key, value, m', 'r'), placeholder('remove', 'this, key', 'r'), placeholder('clear', 'this', ''),
                    to_string_abs(EN, ' && ptrof(x, "*hmap.%s").rtype == 3' % EN), sort_abs(EN, ' && ptrof(en, "*hmap.%s").rtype == 3' % EN)]
        else:
            out += [hdr, ctor_abs('New@T@', True), has_more(EN),
                    next_element(EN, [(None, 'result == old(this.entry.key)')], 'result == nil'),
                    '//@ func @T@.Keys\n' + HDR + LST + '//@   ensures istype(result, "*hmap.%s") && %s != nil && fresh(%s) && %s.parent == this && %s.entry == this.ord[this.lo]\n//@   nopanic' % (EN, p, p, p, p),
                    placeholder('put', 'this, key, m', 'r'), placeholder('remove', 'this, key', 'r'), placeholder('clear', 'this', ''),
                    simple('@E@.Get', '//@   ensures result == this.key\n//@   pure\n//@   nopanic'),
                    sort_abs(None, '')]
    elif name in ('IntLinkedSet', 'StringLinkedSet'):
        nm = 'NextInt' if K == 'int32' else 'NextString'
        exh = '0' if K == 'int32' else '""'
        out += [ctor_default('New@T@'), has_more(EN), nxt(EN, nm, 'old(this.entry.key)', exh),
                starter('Keys', EN, {}, False),
                key_array('KeyArray' if name == 'IntLinkedSet' else 'GetArray', EN, True), to_string(EN, 'x', ''), sort_keys(EN),
                simple('@E@.Get', '//@   ensures result == this.key\n//@   pure\n//@   nopanic')]
    return out
